//! The handler installed into `routinator::verif`: event log, delays,
//! rendezvous, kill points, fault queues, snapshot override.

use std::collections::HashMap;
use std::io::Write;
use std::sync::{Arc, Condvar, Mutex};
use std::sync::atomic::{AtomicU64, Ordering};
use std::time::{Duration, Instant};
use routinator::payload::PayloadSnapshot;
use routinator::verif::Handler;

pub fn mono_ns() -> u128 {
    let mut ts = libc::timespec { tv_sec: 0, tv_nsec: 0 };
    unsafe { libc::clock_gettime(libc::CLOCK_MONOTONIC, &mut ts); }
    ts.tv_sec as u128 * 1_000_000_000 + ts.tv_nsec as u128
}

#[derive(Clone, Debug)]
pub struct Event {
    pub t: Instant,
    /// CLOCK_MONOTONIC in ns (comparable across processes).
    pub mono: u128,
    pub name: String,
    pub detail: String,
    pub thread: String,
}

#[derive(Clone, Debug)]
pub enum Action {
    /// Sleep for the given duration.
    Sleep(Duration),
    /// Park until released via `Hooks::release(name)`; signals arrival.
    Park,
    /// Call the closure index registered under this name.
    Yield,
    /// Sleep for a pseudo-random time of up to the given number of
    /// microseconds on about every other arrival (lock-acquisition jitter).
    Jitter(u64),
}

#[derive(Default)]
struct Inner {
    events: Vec<Event>,
    actions: HashMap<String, Action>,
    faults: HashMap<String, Vec<Option<u32>>>,
    sticky_faults: HashMap<String, u32>,
    detail_faults: Vec<(String, String, u32)>,   // (name, detail prefix, value)
    parked: HashMap<String, u64>,     // name -> number of threads currently parked
    arrived: HashMap<String, u64>,    // name -> total arrivals
    released: HashMap<String, u64>,   // name -> release tickets
    snapshot: Option<PayloadSnapshot>,
    counts: HashMap<String, u64>,
    record: bool,
}

pub struct Hooks {
    inner: Mutex<Inner>,
    cv: Condvar,
    /// When non-zero: SIGKILL the process at the n-th kill point.
    kill_at: AtomicU64,
    kill_seen: AtomicU64,
    jitter: AtomicU64,
    rmdir: Mutex<Option<(String, std::path::PathBuf)>>,
    kill_log: Mutex<Option<std::fs::File>>,
    kill_prefix: Mutex<Vec<String>>,
    event_log: Mutex<Option<std::fs::File>>,
}

impl Hooks {
    pub fn install() -> Arc<Hooks> {
        let h = Arc::new(Hooks {
            inner: Mutex::new(Inner { record: true, ..Default::default() }),
            cv: Condvar::new(),
            kill_at: AtomicU64::new(0),
            kill_seen: AtomicU64::new(0),
            jitter: AtomicU64::new(0),
            rmdir: Mutex::new(None),
            kill_log: Mutex::new(None),
            kill_prefix: Mutex::new(vec!["fs.".into(), "archive.".into()]),
            event_log: Mutex::new(None),
        });
        routinator::verif::set_handler(Some(h.clone()));
        h
    }

    pub fn uninstall() { routinator::verif::set_handler(None) }

    /// Installs a handler configured from the environment (subprocess legs):
    ///   RV_FAULTS     name=v,v,v;name2=v   fault queues ("-" = no fault)
    ///   RV_EVENT_LOG  path: every point is appended as "mono_ns\tname\tdetail"
    ///   RV_KILL_AT    n: SIGKILL at the n-th kill point;  RV_KILL_LOG path
    ///   RV_SLEEP      name=ms;name=ms       sleeps at points
    pub fn install_from_env() -> Arc<Hooks> {
        let h = Self::install();
        h.set_record(false);
        if let Ok(f) = std::env::var("RV_FAULTS") {
            for part in f.split(';').filter(|p| !p.is_empty()) {
                if let Some((name, vals)) = part.split_once('=') {
                    for v in vals.split(',') { h.push_fault(name, v.parse::<u32>().ok()); }
                }
            }
        }
        if let Ok(p) = std::env::var("RV_EVENT_LOG") {
            if let Ok(f) = std::fs::OpenOptions::new().create(true).append(true).open(p) { *h.event_log.lock().unwrap() = Some(f); }
        }
        let kill_at = std::env::var("RV_KILL_AT").ok().and_then(|v| v.parse::<u64>().ok()).unwrap_or(0);
        let kill_log = std::env::var("RV_KILL_LOG").ok().and_then(|p| std::fs::OpenOptions::new().create(true).append(true).open(p).ok());
        if kill_at != 0 || kill_log.is_some() { h.set_kill(kill_at, kill_log); }
        // environment fault: remove a directory whenever a point is reached ("<point>:<path>")
        if let Ok(s) = std::env::var("RV_RMDIR") {
            if let Some((name, path)) = s.split_once(':') { *h.rmdir.lock().unwrap() = Some((name.to_string(), std::path::PathBuf::from(path))); }
        }
        if let Ok(s) = std::env::var("RV_SLEEP") {
            for part in s.split(';').filter(|p| !p.is_empty()) {
                if let Some((name, ms)) = part.split_once('=') { if let Ok(ms) = ms.parse::<u64>() { h.set_action(name, Some(Action::Sleep(Duration::from_millis(ms)))); } }
            }
        }
        h
    }

    pub fn set_record(&self, on: bool) { self.inner.lock().unwrap().record = on; }

    pub fn set_action(&self, name: &str, action: Option<Action>) {
        let mut i = self.inner.lock().unwrap();
        match action {
            Some(a) => { i.actions.insert(name.to_string(), a); }
            None => { i.actions.remove(name); }
        }
    }

    pub fn push_fault(&self, name: &str, value: Option<u32>) {
        self.inner.lock().unwrap().faults.entry(name.to_string()).or_default().push(value);
    }

    pub fn set_sticky_fault(&self, name: &str, value: Option<u32>) {
        let mut i = self.inner.lock().unwrap();
        match value { Some(v) => { i.sticky_faults.insert(name.into(), v); } None => { i.sticky_faults.remove(name); } }
    }

    /// A fault that applies whenever the detail starts with `prefix`.
    pub fn add_detail_fault(&self, name: &str, prefix: &str, value: u32) {
        self.inner.lock().unwrap().detail_faults.push((name.into(), prefix.into(), value));
    }

    pub fn clear_detail_faults(&self) { self.inner.lock().unwrap().detail_faults.clear(); }

    pub fn set_snapshot(&self, s: PayloadSnapshot) {
        self.inner.lock().unwrap().snapshot = Some(s);
    }

    pub fn take_events(&self) -> Vec<Event> {
        std::mem::take(&mut self.inner.lock().unwrap().events)
    }

    pub fn events(&self) -> Vec<Event> { self.inner.lock().unwrap().events.clone() }

    pub fn count(&self, name: &str) -> u64 {
        self.inner.lock().unwrap().counts.get(name).copied().unwrap_or(0)
    }

    pub fn reset_counts(&self) { self.inner.lock().unwrap().counts.clear(); }

    /// Waits until `n` threads in total have arrived at the parked point.
    pub fn wait_arrived(&self, name: &str, n: u64, timeout: Duration) -> bool {
        let deadline = Instant::now() + timeout;
        let mut i = self.inner.lock().unwrap();
        loop {
            if i.arrived.get(name).copied().unwrap_or(0) >= n { return true }
            let now = Instant::now();
            if now >= deadline { return false }
            let (g, _) = self.cv.wait_timeout(i, deadline - now).unwrap();
            i = g;
        }
    }

    pub fn arrived(&self, name: &str) -> u64 {
        self.inner.lock().unwrap().arrived.get(name).copied().unwrap_or(0)
    }

    /// Releases one parked thread (or lets the next arrival pass).
    pub fn release(&self, name: &str) {
        let mut i = self.inner.lock().unwrap();
        *i.released.entry(name.to_string()).or_insert(0) += 1;
        self.cv.notify_all();
    }

    pub fn release_all(&self, name: &str) {
        let mut i = self.inner.lock().unwrap();
        i.actions.remove(name);
        *i.released.entry(name.to_string()).or_insert(0) += 1_000_000;
        self.cv.notify_all();
    }

    /// Kill-point control for subprocess legs.
    pub fn set_kill(&self, at: u64, log: Option<std::fs::File>) {
        self.kill_at.store(at, Ordering::SeqCst);
        *self.kill_log.lock().unwrap() = log;
    }

    pub fn seed_jitter(&self, seed: u64) { self.jitter.store(seed, Ordering::SeqCst); }

    pub fn kill_points_seen(&self) -> u64 { self.kill_seen.load(Ordering::SeqCst) }
}

impl Handler for Hooks {
    fn point(&self, name: &str, detail: &str) {
        if let Some((n, path)) = self.rmdir.lock().unwrap().as_ref() { if n == name { let _ = std::fs::remove_dir_all(path); } }
        // Kill points.
        let is_kill = {
            let p = self.kill_prefix.lock().unwrap();
            p.iter().any(|x| name.starts_with(x.as_str()))
        };
        if is_kill {
            let n = self.kill_seen.fetch_add(1, Ordering::SeqCst) + 1;
            if let Some(f) = self.kill_log.lock().unwrap().as_mut() {
                let _ = writeln!(f, "{}\t{}\t{}", n, name, detail.replace('\n', " "));
                let _ = f.flush();
            }
            let at = self.kill_at.load(Ordering::SeqCst);
            if at != 0 && n == at {
                unsafe { libc::kill(libc::getpid(), libc::SIGKILL); }
                std::thread::sleep(Duration::from_secs(5));
            }
        }
        if let Some(f) = self.event_log.lock().unwrap().as_mut() {
            let _ = f.write_all(format!("{}\t{}\t{}\n", mono_ns(), name, detail.replace('\n', " ")).as_bytes());
        }
        let action = {
            let mut i = self.inner.lock().unwrap();
            *i.counts.entry(name.to_string()).or_insert(0) += 1;
            if i.record && !name.starts_with("history.") {
                let thread = format!("{:?}", std::thread::current().id());
                i.events.push(Event { t: Instant::now(), mono: mono_ns(), name: name.into(), detail: detail.into(), thread });
            }
            i.actions.get(name).cloned()
        };
        match action {
            None => {}
            Some(Action::Sleep(d)) => std::thread::sleep(d),
            Some(Action::Yield) => std::thread::yield_now(),
            Some(Action::Jitter(max_us)) => {
                let n = self.jitter.fetch_add(0x9E37_79B9_7F4A_7C15, Ordering::Relaxed);
                let mut x = n ^ (n >> 31); x = x.wrapping_mul(0xBF58_476D_1CE4_E5B9); x ^= x >> 29;
                if x & 1 == 0 { std::thread::sleep(Duration::from_micros((x >> 8) % max_us.max(1))); } else if x & 2 == 0 { std::thread::yield_now(); }
            }
            Some(Action::Park) => {
                let mut i = self.inner.lock().unwrap();
                *i.arrived.entry(name.to_string()).or_insert(0) += 1;
                *i.parked.entry(name.to_string()).or_insert(0) += 1;
                self.cv.notify_all();
                let deadline = Instant::now() + Duration::from_secs(60);
                loop {
                    let tickets = i.released.get(name).copied().unwrap_or(0);
                    if tickets > 0 {
                        i.released.insert(name.to_string(), tickets - 1);
                        break
                    }
                    let now = Instant::now();
                    if now >= deadline { break }
                    let (g, _) = self.cv.wait_timeout(i, deadline - now).unwrap();
                    i = g;
                }
                *i.parked.entry(name.to_string()).or_insert(1) -= 1;
            }
        }
    }

    fn fault(&self, name: &str, detail: &str) -> Option<u32> {
        let mut i = self.inner.lock().unwrap();
        *i.counts.entry(format!("fault:{name}")).or_insert(0) += 1;
        if let Some(v) = i.detail_faults.iter().find(|f| f.0 == name && detail.starts_with(f.1.as_str())).map(|f| f.2) {
            *i.counts.entry(format!("fault-injected:{name}")).or_insert(0) += 1;
            return Some(v)
        }
        if let Some(q) = i.faults.get_mut(name) {
            if !q.is_empty() { return q.remove(0) }
        }
        i.sticky_faults.get(name).copied()
    }

    fn override_snapshot(&self) -> Option<PayloadSnapshot> {
        self.inner.lock().unwrap().snapshot.take()
    }
}
