//! Running a case in a forked child so that aborts, signals, runaway
//! allocation and non-termination are attributed to exactly that case.

use std::io::Read;
use std::os::fd::FromRawFd;
use std::time::{Duration, Instant};
use serde::{de::DeserializeOwned, Serialize};

#[derive(Debug)]
pub enum IsoError {
    /// The child died from a signal (abort = SIGABRT, segfault, ...).
    Signal(i32, String),
    /// The child exited with a non-zero status without reporting.
    Exit(i32, String),
    /// The child used more CPU time than the budget.
    CpuBudget(Duration),
    /// Wall clock watchdog without CPU use: cannot decide.
    WallClock,
    Harness(String),
}

fn child_cpu(pid: i32) -> Option<Duration> {
    let s = std::fs::read_to_string(format!("/proc/{pid}/stat")).ok()?;
    let rest = s.rsplit_once(')')?.1;
    let f: Vec<&str> = rest.split_whitespace().collect();
    // after the command: state is f[0]; utime = field 14 overall => index 11 here, stime index 12
    let ut: u64 = f.get(11)?.parse().ok()?;
    let st: u64 = f.get(12)?.parse().ok()?;
    let hz = unsafe { libc::sysconf(libc::_SC_CLK_TCK) } as u64;
    Some(Duration::from_millis((ut + st) * 1000 / hz.max(1)))
}

/// Runs `f` in a forked child and returns its serialised result.
/// Must be called from a single-threaded process.
pub fn isolated<T: Serialize + DeserializeOwned>(
    cpu_budget: Duration, wall: Duration, f: impl FnOnce() -> T,
) -> Result<T, IsoError> {
    let mut fds = [0i32; 2];
    if unsafe { libc::pipe(fds.as_mut_ptr()) } != 0 { return Err(IsoError::Harness("pipe".into())) }
    let mut efds = [0i32; 2];
    if unsafe { libc::pipe(efds.as_mut_ptr()) } != 0 { return Err(IsoError::Harness("pipe".into())) }
    let pid = unsafe { libc::fork() };
    if pid < 0 { return Err(IsoError::Harness("fork".into())) }
    if pid == 0 {
        // Child.
        unsafe {
            libc::close(fds[0]); libc::close(efds[0]);
            libc::dup2(efds[1], 2);
        }
        let res = std::panic::catch_unwind(std::panic::AssertUnwindSafe(f));
        let code = match res {
            Ok(v) => {
                let data = serde_json::to_vec(&v).unwrap_or_default();
                let mut off = 0;
                while off < data.len() {
                    let n = unsafe { libc::write(fds[1], data[off..].as_ptr() as *const _, data.len() - off) };
                    if n <= 0 { break }
                    off += n as usize;
                }
                0
            }
            Err(_) => 101,
        };
        unsafe { libc::_exit(code) }
    }
    unsafe { libc::close(fds[1]); libc::close(efds[1]); }
    // Parent: read result while watching CPU time.
    unsafe {
        let fl = libc::fcntl(fds[0], libc::F_GETFL);
        libc::fcntl(fds[0], libc::F_SETFL, fl | libc::O_NONBLOCK);
    }
    let mut out = Vec::new();
    let mut buf = [0u8; 65536];
    let start = Instant::now();
    let mut status = 0i32;
    let mut verdict: Option<IsoError> = None;
    loop {
        loop {
            let n = unsafe { libc::read(fds[0], buf.as_mut_ptr() as *mut _, buf.len()) };
            if n > 0 { out.extend_from_slice(&buf[..n as usize]); } else { break }
        }
        let r = unsafe { libc::waitpid(pid, &mut status, libc::WNOHANG) };
        if r == pid { break }
        if r < 0 { return Err(IsoError::Harness("waitpid".into())) }
        if let Some(cpu) = child_cpu(pid) {
            if cpu > cpu_budget { verdict = Some(IsoError::CpuBudget(cpu)); }
        }
        if verdict.is_none() && start.elapsed() > wall { verdict = Some(IsoError::WallClock); }
        if verdict.is_some() {
            unsafe { libc::kill(pid, libc::SIGKILL); libc::waitpid(pid, &mut status, 0); }
            break
        }
        if start.elapsed() < Duration::from_millis(2) { std::thread::yield_now() } else { std::thread::sleep(Duration::from_micros(300)) }
    }
    loop {
        let n = unsafe { libc::read(fds[0], buf.as_mut_ptr() as *mut _, buf.len()) };
        if n > 0 { out.extend_from_slice(&buf[..n as usize]); } else { break }
    }
    let mut err_txt = String::new();
    {
        let mut ef = unsafe { std::fs::File::from_raw_fd(efds[0]) };
        unsafe { let fl = libc::fcntl(efds[0], libc::F_GETFL); libc::fcntl(efds[0], libc::F_SETFL, fl | libc::O_NONBLOCK); }
        let mut b = Vec::new();
        let _ = ef.read_to_end(&mut b);
        err_txt = String::from_utf8_lossy(&b[..b.len().min(600)]).into_owned() + &err_txt;
    }
    unsafe { libc::close(fds[0]); }
    if let Some(v) = verdict { return Err(v) }
    if libc::WIFSIGNALED(status) { return Err(IsoError::Signal(libc::WTERMSIG(status), err_txt)) }
    let code = libc::WEXITSTATUS(status);
    if code != 0 { return Err(IsoError::Exit(code, err_txt)) }
    serde_json::from_slice(&out).map_err(|e| IsoError::Harness(format!("child result unreadable: {e}")))
}
