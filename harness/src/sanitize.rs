//! Sanitizer legs of the thorough tier: the same worker code is run once more
//! under valgrind memcheck (plain release binary) and under Miri (the
//! `mirileg` binary of this crate), with a short soft budget. A report from
//! the tool is a violation with the tool's own description; anything that
//! keeps the tool from running (not installed, unsupported instruction, time
//! out, build failure) is a note and never changes the verdict.

use std::path::Path;
use std::process::{Command, Stdio};
use std::time::{Duration, Instant};
use serde_json::json;
use crate::core::{Check, Report, VERIF_DIR};

/// Checks whose workload reaches routinator's unsafe code (memory-mapped
/// archive storage) or hand-written binary decoding.
const MEMCHECK: &[&str] = &["C26", "C27", "C28"];

/// Checks whose workload is pure Rust (no FFI: no crypto, sockets, mmap).
const MIRI: &[&str] = &["C11", "C12", "C20"];

fn wait(child: &mut std::process::Child, limit: Duration) -> Option<std::process::ExitStatus> {
    let t0 = Instant::now();
    loop {
        match child.try_wait() { Ok(Some(s)) => return Some(s), Ok(None) => {}, Err(_) => return None }
        if t0.elapsed() > limit { let _ = child.kill(); let _ = child.wait(); return None }
        std::thread::sleep(Duration::from_millis(50));
    }
}

fn merge_leg(rep: &mut Report, dir: &Path, tool: &str) -> bool {
    let Some(r) = std::fs::read(dir.join("report.json")).ok().and_then(|d| serde_json::from_slice::<Report>(&d).ok()) else { return false };
    rep.count(&format!("{tool}_evaluations"), r.evaluations);
    rep.count(&format!("{tool}_distinct_classes"), r.classes.len() as u64);
    // the leg runs the same oracles: their verdicts count too
    rep.violations.extend(r.violations);
    for (k, v) in r.counters { if k.starts_with("violations_seen:") { rep.count(&k, v) } }
    true
}

fn first_repo_frame(block: &str) -> String {
    for l in block.lines() {
        if let Some(i) = l.find("routinator::") { let f: String = l[i..].chars().take_while(|c| !c.is_whitespace() && *c != '(').collect(); return f }
    }
    for l in block.lines() { if let Some(i) = l.find("rv::") { return l[i..].chars().take_while(|c| !c.is_whitespace() && *c != '(').collect() } }
    "unknown-frame".into()
}

pub fn legs(check: &Check, seed: u64, root: &Path, rep: &mut Report) {
    if MEMCHECK.contains(&check.id) { memcheck(check, seed, root, rep) }
    if MIRI.contains(&check.id) { miri(check, seed, root, rep) }
}

fn memcheck(check: &Check, seed: u64, root: &Path, rep: &mut Report) {
    let dir = root.join("memcheck");
    let _ = std::fs::create_dir_all(&dir);
    let exe = std::env::current_exe().expect("current exe");
    let log = dir.join("valgrind.log");
    let mut cmd = Command::new("valgrind");
    cmd.arg("--error-exitcode=97").arg("--leak-check=no").arg("--trace-children=yes").arg("--child-silent-after-fork=yes")
        .arg(format!("--log-file={}", log.display())).arg("--num-callers=30")
        .arg(&exe).arg("worker").arg(check.id).arg("quick").arg(seed.to_string()).arg("0").arg("1").arg(&dir)
        .env("RV_BUDGET_SECS", "60").stdin(Stdio::null()).stdout(Stdio::null()).stderr(Stdio::null());
    let mut child = match cmd.spawn() { Ok(c) => c, Err(e) => { rep.note(format!("memcheck leg not run: valgrind cannot be started ({e})")); return } };
    let status = wait(&mut child, Duration::from_secs(1500));
    let text = std::fs::read_to_string(&log).unwrap_or_default();
    let Some(status) = status else { rep.note("memcheck leg: wall-clock limit reached, no verdict from it"); return };
    if text.contains("unhandled instruction") || text.contains("Unrecognised instruction") { rep.note("memcheck leg: valgrind does not know an instruction of this binary; no verdict from it"); return }
    let got_report = merge_leg(rep, &dir, "memcheck");
    if status.code() == Some(97) || text.contains("ERROR SUMMARY") && !text.contains("ERROR SUMMARY: 0 errors") {
        // one violation per distinct (kind, first frame in routinator)
        let mut seen = std::collections::BTreeSet::new();
        for block in text.split("\n==").collect::<Vec<_>>().join("\n").split("\n\n") {
            let kind = if block.contains("Invalid read") { "invalid-read" } else if block.contains("Invalid write") { "invalid-write" }
                else if block.contains("uninitialised") { "uninitialised-value" } else if block.contains("Invalid free") || block.contains("Mismatched free") { "invalid-free" }
                else if block.contains("overlap") { "overlapping-copy" } else { continue };
            let frame = first_repo_frame(block);
            if seen.insert((kind, frame.clone())) {
                rep.violation(format!("{}/memcheck/{kind}/{frame}", check.id), format!("valgrind memcheck: {kind} with first routinator frame {frame}: {}", block.lines().take(12).collect::<Vec<_>>().join(" | ")), json!({"tool": "valgrind memcheck", "seed": seed}));
            }
        }
        if seen.is_empty() { rep.note(format!("memcheck leg: valgrind exited {:?} without a recognisable error block", status.code())); }
    }
    else if !got_report { rep.note(format!("memcheck leg: worker left no report (exit {:?})", status.code())); }
    else { rep.count("memcheck_clean_runs", 1); }
}

fn miri(check: &Check, seed: u64, root: &Path, rep: &mut Report) {
    let dir = root.join("miri");
    let _ = std::fs::create_dir_all(&dir);
    let harness = Path::new(VERIF_DIR).join("harness");
    let out = dir.join("miri.log");
    let logf = match std::fs::File::create(&out) { Ok(f) => f, Err(_) => { rep.note("miri leg not run: cannot create log"); return } };
    let mut cmd = Command::new("cargo");
    cmd.current_dir(&harness).arg("+nightly").arg("miri").arg("run").arg("--offline").arg("--bin").arg("mirileg").arg("--")
        .arg(check.id).arg(seed.to_string()).arg(&dir)
        .env("CARGO_NET_OFFLINE", "true").env("CARGO_TARGET_DIR", harness.join("target/miri"))
        .env("MIRIFLAGS", "-Zmiri-disable-isolation -Zmiri-env-forward=RV_BUDGET_SECS -Zmiri-env-forward=RV_SELFTEST_OOB")
        .env("RV_BUDGET_SECS", "150")
        .stdin(Stdio::null()).stdout(logf.try_clone().unwrap()).stderr(logf);
    let mut child = match cmd.spawn() { Ok(c) => c, Err(e) => { rep.note(format!("miri leg not run: {e}")); return } };
    let status = wait(&mut child, Duration::from_secs(2400));
    let text = std::fs::read_to_string(&out).unwrap_or_default();
    let Some(status) = status else { rep.note("miri leg: wall-clock limit reached (first build of the dependency tree under Miri takes several minutes), no verdict from it"); return };
    if text.contains("Undefined Behavior") {
        let at = text.find("Undefined Behavior").unwrap_or(0);
        let block: String = text[at..].lines().take(25).collect::<Vec<_>>().join(" | ");
        let frame = first_repo_frame(&text[at..]);
        rep.violation(format!("{}/miri/undefined-behaviour/{frame}", check.id), format!("Miri: {block}"), json!({"tool": "miri", "seed": seed}));
        return
    }
    if !merge_leg(rep, &dir, "miri") {
        let tail: String = text.lines().rev().take(6).collect::<Vec<_>>().into_iter().rev().collect::<Vec<_>>().join(" | ");
        rep.note(format!("miri leg: no report (exit {:?}); {}", status.code(), tail.chars().take(400).collect::<String>()));
    } else { rep.count("miri_clean_runs", 1); }
}
