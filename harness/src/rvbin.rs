//! `rv routinator <args>`: routinator's main (public API only, as in its
//! src/main.rs) with the hook handler installed from the environment.

use clap::{crate_authors, crate_version, Command};
use routinator::{Config, ExitError, Operation};

fn run(args: &[String]) -> Result<(), ExitError> {
    Operation::prepare()?;
    let cur_dir = std::env::current_dir().map_err(|_| ExitError::Generic)?;
    let matches = Operation::config_args(Config::config_args(
        Command::new("Routinator").version(crate_version!()).author(crate_authors!())
            .about("collects and processes RPKI repository data")
    )).get_matches_from(args);
    let mut config = Config::from_arg_matches(&matches, &cur_dir)?;
    let operation = Operation::from_arg_matches(&matches, &cur_dir, &mut config)?;
    operation.run(config)
}

pub fn main(args: &[String]) -> i32 {
    let _hooks = crate::hooks::Hooks::install_from_env();
    match run(args) {
        Ok(_) => 0,
        Err(ExitError::Generic) => 1,
        Err(ExitError::IncompleteUpdate) => 2,
        Err(ExitError::Invalid) => 3,
    }
}
