//! A capturing logger: routinator reports many outcomes only through the
//! `log` crate; checks read the captured lines (per process).

use std::sync::Mutex;
use log::{Level, LevelFilter, Log, Metadata, Record};

static LINES: Mutex<Vec<(Level, String)>> = Mutex::new(Vec::new());

struct Cap;

impl Log for Cap {
    fn enabled(&self, _: &Metadata) -> bool { true }
    fn log(&self, record: &Record) {
        if !record.target().starts_with("routinator") && !record.target().starts_with("rpki") { return }
        let mut g = LINES.lock().unwrap_or_else(|e| e.into_inner());
        if g.len() < 20_000 { g.push((record.level(), format!("{}", record.args()))); }
    }
    fn flush(&self) {}
}

static CAP: Cap = Cap;

/// Installs the capturing logger (idempotent).
pub fn install(level: LevelFilter) {
    let _ = log::set_logger(&CAP);
    log::set_max_level(level);
}

pub fn take() -> Vec<(Level, String)> {
    std::mem::take(&mut *LINES.lock().unwrap_or_else(|e| e.into_inner()))
}

pub fn clear() { LINES.lock().unwrap_or_else(|e| e.into_inner()).clear(); }
