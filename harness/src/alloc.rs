//! Allocation monitor: a global allocator wrapper that records, per
//! thread and only while armed, the largest single request and the number
//! of bytes requested. It never refuses a request; requests that the system
//! cannot satisfy abort the process as usual (the caller runs risky cases in
//! a forked child and attributes the abort to the case in flight).

use std::alloc::{GlobalAlloc, Layout, System};
use std::cell::Cell;

pub struct Monitor;

thread_local! {
    static ARMED: Cell<bool> = const { Cell::new(false) };
    static MAX_REQ: Cell<usize> = const { Cell::new(0) };
    static TOTAL: Cell<usize> = const { Cell::new(0) };
}

#[inline]
fn note(size: usize) {
    let _ = ARMED.try_with(|a| {
        if a.get() {
            let _ = MAX_REQ.try_with(|m| if size > m.get() { m.set(size) });
            let _ = TOTAL.try_with(|t| t.set(t.get().saturating_add(size)));
        }
    });
}

unsafe impl GlobalAlloc for Monitor {
    unsafe fn alloc(&self, layout: Layout) -> *mut u8 { note(layout.size()); System.alloc(layout) }
    unsafe fn dealloc(&self, ptr: *mut u8, layout: Layout) { System.dealloc(ptr, layout) }
    unsafe fn alloc_zeroed(&self, layout: Layout) -> *mut u8 { note(layout.size()); System.alloc_zeroed(layout) }
    unsafe fn realloc(&self, ptr: *mut u8, layout: Layout, new_size: usize) -> *mut u8 {
        note(new_size); System.realloc(ptr, layout, new_size)
    }
}

/// Arms the monitor for the current thread and resets its counters.
pub fn arm() {
    MAX_REQ.with(|m| m.set(0));
    TOTAL.with(|t| t.set(0));
    ARMED.with(|a| a.set(true));
}

/// Disarms and returns (largest single request, total bytes requested).
pub fn disarm() -> (usize, usize) {
    ARMED.with(|a| a.set(false));
    (MAX_REQ.with(|m| m.get()), TOTAL.with(|t| t.get()))
}
