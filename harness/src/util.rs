//! Small helpers shared by the property modules.

use std::path::{Path, PathBuf};
use routinator::config::Config;
use routinator::metrics::Metrics;
use routinator::payload::{SharedHistory, ValidationReport};
use routinator::slurm::LocalExceptions;
use crate::hooks::Hooks;
use crate::pgen::Model;

/// A default configuration rooted in `dir` (cache in dir/cache, no bundled
/// TALs, TAL dir dir/tals).
pub fn base_config(dir: &Path) -> Config {
    let cache = dir.join("cache");
    let tals = dir.join("tals");
    let _ = std::fs::create_dir_all(&cache);
    let _ = std::fs::create_dir_all(&tals);
    let mut c = Config::default_with_paths(dir.join("routinator.conf"), cache);
    c.no_rir_tals = true;
    c.bundled_tals = Vec::new();
    c.extra_tals_dir = Some(tals);
    c.rsync_command = "/bin/true".into();
    c.rsync_args = Some(Vec::new());
    c
}

/// Installs `model` as the next data set through the real
/// `SharedHistory::update` (snapshot override hook). Returns whether the
/// history reported a change.
pub fn install(history: &SharedHistory, hooks: &Hooks, config: &Config, model: &Model) -> bool {
    hooks.set_snapshot(model.snapshot());
    let report = ValidationReport::new(config);
    history.update(report, &LocalExceptions::empty(), Metrics::default())
}

pub fn scratch_sub(base: &Path, name: &str) -> PathBuf {
    let p = base.join(name);
    let _ = std::fs::remove_dir_all(&p);
    std::fs::create_dir_all(&p).expect("scratch sub dir");
    p
}
