//! In-process test server: the real http_listener and rtr_listener over a
//! real SharedHistory, driven by the real server update step
//! (Server::verif_process_once); plus small blocking HTTP and RTR clients.

use std::collections::BTreeMap;
use std::io::{Read, Write};
use std::net::{SocketAddr, TcpListener, TcpStream};
use std::path::Path;
use std::sync::Arc;
use std::time::{Duration, Instant};
use routinator::config::Config;
use routinator::engine::Engine;
use routinator::error::RunFailed;
use routinator::metrics::RtrServerMetrics;
use routinator::operation::Server;
use routinator::payload::SharedHistory;
use routinator::slurm::LocalExceptions;
use rpki::rtr::client::{Client, PayloadError, PayloadTarget};
use rpki::rtr::payload::{Action, Payload, Timing};
use rpki::rtr::server::NotifySender;
use rpki::rtr::state::State;
use crate::hooks::Hooks;
use crate::pgen::Model;
use crate::util::base_config;

pub fn free_port() -> u16 {
    let l = TcpListener::bind("127.0.0.1:0").expect("bind");
    l.local_addr().unwrap().port()
}

pub struct TestServer {
    pub rt: tokio::runtime::Runtime,
    pub history: SharedHistory,
    pub notify: NotifySender,
    pub config: Config,
    pub engine: Engine,
    pub http_addr: SocketAddr,
    pub rtr_addr: SocketAddr,
    pub rtr_metrics: Arc<RtrServerMetrics>,
    pub exceptions: LocalExceptions,
}

impl TestServer {
    /// Starts listeners. `tweak` may adjust the configuration first.
    pub fn start(dir: &Path, tweak: impl FnOnce(&mut Config)) -> Result<Self, String> {
        let mut config = base_config(dir);
        config.refresh = Duration::from_secs(600);
        tweak(&mut config);
        Self::start_with_config(config, false)
    }

    /// Starts listeners for a complete configuration; `update` enables the collector.
    pub fn start_with_config(mut config: Config, update: bool) -> Result<Self, String> {
        let mut last_err = String::new();
        for _ in 0..5 {
            let http_port = free_port();
            let http_addr: SocketAddr = format!("127.0.0.1:{http_port}").parse().unwrap();
            config.http_listen = vec![http_addr];
            let rtr_listener = TcpListener::bind("127.0.0.1:0").map_err(|e| e.to_string())?;
            rtr_listener.set_nonblocking(true).map_err(|e| e.to_string())?;
            let rtr_addr = rtr_listener.local_addr().unwrap();
            let rt = tokio::runtime::Builder::new_multi_thread()
                .worker_threads(4).enable_all().build().map_err(|e| e.to_string())?;
            let history = SharedHistory::from_config(&config);
            let notify = NotifySender::new();
            let rtr_metrics = Arc::new(RtrServerMetrics::new(config.rtr_client_metrics));
            let _guard = rt.enter();
            let rtr = match routinator::rtr::rtr_listener(
                history.clone(), rtr_metrics.clone(), &config, notify.clone(), Some(rtr_listener)
            ) { Ok(f) => f, Err(_) => { last_err = "rtr_listener failed".into(); continue } };
            let http = match routinator::http::http_listener(
                history.clone(), rtr_metrics.clone(), None, &config, notify.clone()
            ) { Ok(f) => f, Err(_) => { last_err = "http_listener failed (port in use?)".into(); continue } };
            rt.spawn(rtr);
            rt.spawn(http);
            drop(_guard);
            let mut engine = Engine::new(&config, update).map_err(|_| "Engine::new failed".to_string())?;
            engine.ignite().map_err(|_| "Engine::ignite failed".to_string())?;
            return Ok(TestServer {
                rt, history, notify, config, engine, http_addr, rtr_addr, rtr_metrics,
                exceptions: LocalExceptions::empty(),
            })
        }
        Err(last_err)
    }

    /// One iteration of the real server loop.
    pub fn process_once(&mut self, initial: bool) -> Result<(), RunFailed> {
        Server::verif_process_once(
            &self.config, &self.engine, &self.history, &mut self.notify, &self.exceptions, initial)
    }

    /// Installs the model as the result of the next run.
    pub fn install(&mut self, hooks: &Hooks, model: &Model) -> Result<(), RunFailed> {
        hooks.set_snapshot(model.snapshot());
        self.process_once(false)
    }
}

//------------ HTTP client ---------------------------------------------------

#[derive(Clone, Debug, Default)]
pub struct HttpResponse {
    pub status: u16,
    pub headers: BTreeMap<String, String>,
    pub body: Vec<u8>,
    pub chunks: Vec<usize>,
    pub t_call: Option<Instant>,
    pub t_return: Option<Instant>,
}

impl HttpResponse {
    pub fn header(&self, name: &str) -> Option<&str> {
        self.headers.get(&name.to_ascii_lowercase()).map(|s| s.as_str())
    }
    pub fn text(&self) -> String { String::from_utf8_lossy(&self.body).into_owned() }
}

pub fn http_request(
    addr: SocketAddr, method: &str, target: &str, headers: &[(&str, String)],
    body: Option<&[u8]>, timeout: Duration,
) -> Result<HttpResponse, String> {
    let t_call = Instant::now();
    let mut s = TcpStream::connect_timeout(&addr, Duration::from_secs(5)).map_err(|e| format!("connect: {e}"))?;
    s.set_read_timeout(Some(timeout)).ok();
    s.set_write_timeout(Some(Duration::from_secs(10))).ok();
    let mut req = format!("{method} {target} HTTP/1.1\r\nHost: {addr}\r\nConnection: close\r\n");
    for (k, v) in headers { req.push_str(&format!("{k}: {v}\r\n")); }
    if let Some(b) = body { req.push_str(&format!("Content-Length: {}\r\n", b.len())); }
    req.push_str("\r\n");
    s.write_all(req.as_bytes()).map_err(|e| format!("write: {e}"))?;
    if let Some(b) = body { s.write_all(b).map_err(|e| format!("write body: {e}"))?; }
    let mut raw = Vec::new();
    let mut buf = [0u8; 65536];
    loop {
        match s.read(&mut buf) {
            Ok(0) => break,
            Ok(n) => raw.extend_from_slice(&buf[..n]),
            Err(e) if e.kind() == std::io::ErrorKind::WouldBlock || e.kind() == std::io::ErrorKind::TimedOut => {
                return Err("timeout".into())
            }
            Err(e) => return Err(format!("read: {e}")),
        }
    }
    let t_return = Instant::now();
    let mut resp = parse_http(&raw, method == "HEAD")?;
    resp.t_call = Some(t_call);
    resp.t_return = Some(t_return);
    Ok(resp)
}

pub fn parse_http(raw: &[u8], head: bool) -> Result<HttpResponse, String> {
    let pos = raw.windows(4).position(|w| w == b"\r\n\r\n").ok_or("no header end")?;
    let head_txt = String::from_utf8_lossy(&raw[..pos]).into_owned();
    let mut lines = head_txt.split("\r\n");
    let status_line = lines.next().ok_or("no status line")?;
    let status: u16 = status_line.split_whitespace().nth(1).and_then(|s| s.parse().ok()).ok_or("bad status")?;
    let mut headers = BTreeMap::new();
    for l in lines {
        if let Some((k, v)) = l.split_once(':') {
            headers.insert(k.trim().to_ascii_lowercase(), v.trim().to_string());
        }
    }
    let rest = &raw[pos + 4..];
    let mut body = Vec::new();
    let mut chunks = Vec::new();
    if head || status == 304 || status == 204 {
        // no body
    }
    else if headers.get("transfer-encoding").map(|v| v.to_ascii_lowercase().contains("chunked")).unwrap_or(false) {
        let mut i = 0;
        loop {
            let e = rest[i..].windows(2).position(|w| w == b"\r\n").ok_or("bad chunk header")? + i;
            let size_txt = String::from_utf8_lossy(&rest[i..e]);
            let size = usize::from_str_radix(size_txt.split(';').next().unwrap().trim(), 16).map_err(|_| "bad chunk size")?;
            i = e + 2;
            if size == 0 { break }
            if i + size > rest.len() { return Err("truncated chunk".into()) }
            body.extend_from_slice(&rest[i..i + size]);
            chunks.push(size);
            i += size + 2;
        }
    }
    else if let Some(len) = headers.get("content-length").and_then(|v| v.parse::<usize>().ok()) {
        if rest.len() < len { return Err("truncated body".into()) }
        body.extend_from_slice(&rest[..len]);
    }
    else {
        body.extend_from_slice(rest);
    }
    Ok(HttpResponse { status, headers, body, chunks, t_call: None, t_return: None })
}

pub fn http_get(addr: SocketAddr, target: &str) -> Result<HttpResponse, String> {
    http_request(addr, "GET", target, &[], None, Duration::from_secs(20))
}

//------------ RTR client ----------------------------------------------------

#[derive(Default)]
pub struct RtrTarget {
    pub reset: bool,
    pub items: Vec<(Action, Payload)>,
    pub applied: bool,
}

impl PayloadTarget for RtrTarget {
    type Update = Vec<(Action, Payload)>;
    fn start(&mut self, reset: bool) -> Self::Update { self.reset = reset; Vec::new() }
    fn apply(&mut self, update: Self::Update, _timing: Timing) -> Result<(), PayloadError> {
        self.items = update; self.applied = true; Ok(())
    }
}

#[derive(Debug)]
pub struct RtrAnswer {
    pub reset: bool,
    pub state: State,
    pub items: Vec<(Action, Payload)>,
    pub t_call: Instant,
    pub t_return: Instant,
}

/// One RTR exchange on a fresh connection: serial query if `state` is
/// given (falling back to reset when the server says so), else reset query.
/// `Ok(None)` means the server answered with an error PDU / closed (e.g. no
/// data available).
pub fn rtr_query(rt: &tokio::runtime::Runtime, addr: SocketAddr, state: Option<State>, timeout: Duration)
    -> Result<Option<RtrAnswer>, String>
{
    let t_call = Instant::now();
    let res = rt.block_on(async move {
        let fut = async {
            let sock = tokio::net::TcpStream::connect(addr).await.map_err(|e| format!("connect: {e}"))?;
            let mut client = Client::with_initial_version(2, sock, RtrTarget::default(), state);
            match client.step().await {
                Ok(()) => {
                    let st = client.state().ok_or("no state after update")?;
                    let t = client.into_target();
                    Ok(Some((t.reset, st, t.items)))
                }
                Err(e) => {
                    // "no data available" and EOF surface as errors
                    Err(format!("rtr: {e}"))
                }
            }
        };
        match tokio::time::timeout(timeout, fut).await {
            Ok(r) => r,
            Err(_) => Err("timeout".to_string()),
        }
    });
    let t_return = Instant::now();
    match res {
        Ok(Some((reset, state, items))) => Ok(Some(RtrAnswer { reset, state, items, t_call, t_return })),
        Ok(None) => Ok(None),
        Err(e) => Err(e),
    }
}

pub fn model_from_rtr(items: &[(Action, Payload)]) -> Result<Model, String> {
    let mut m = Model::default();
    for (a, p) in items { m.apply(p.as_ref(), *a)?; }
    Ok(m)
}
