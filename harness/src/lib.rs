//! Runtime-verification harness for routinator.

pub mod core;
pub mod hooks;
pub mod pgen;
pub mod srv;
pub mod util;
pub mod props;
