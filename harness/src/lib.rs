//! Runtime-verification harness for routinator.

pub mod core;
pub mod pgen;
pub mod props;
