//! Runtime-verification harness for routinator.

pub mod alloc;
pub mod caplog;
pub mod clock;
pub mod core;
pub mod hooks;
pub mod iso;
pub mod net;
pub mod pgen;
pub mod rvbin;
pub mod sanitize;
pub mod srv;
pub mod util;
pub mod world;
pub mod props;

#[global_allocator]
static GLOBAL: alloc::Monitor = alloc::Monitor;
