//! Shared machinery: PRNG, per-shard reports, supervisor, evidence,
//! known findings, replay files.

use std::collections::{BTreeMap, BTreeSet};
use std::io::Write;
use std::path::{Path, PathBuf};
use std::process::{Command, Stdio};
use std::time::{Duration, Instant};
use serde::{Deserialize, Serialize};
use serde_json::{json, Value};

pub const VERIF_DIR: &str = "/verif";

//------------ Rng -----------------------------------------------------------

/// A small deterministic PRNG (xoshiro256**), seeded via splitmix64.
#[derive(Clone, Debug)]
pub struct Rng {
    s: [u64; 4],
}

fn splitmix(x: &mut u64) -> u64 {
    *x = x.wrapping_add(0x9E3779B97F4A7C15);
    let mut z = *x;
    z = (z ^ (z >> 30)).wrapping_mul(0xBF58476D1CE4E5B9);
    z = (z ^ (z >> 27)).wrapping_mul(0x94D049BB133111EB);
    z ^ (z >> 31)
}

impl Rng {
    pub fn new(seed: u64) -> Self {
        let mut x = seed;
        Rng { s: [splitmix(&mut x), splitmix(&mut x), splitmix(&mut x), splitmix(&mut x)] }
    }
    pub fn derive(seed: u64, tag: &str, idx: u64) -> Self {
        let mut h = seed ^ 0xA5A5_5A5A_1234_5678;
        for b in tag.bytes() {
            h = (h ^ b as u64).wrapping_mul(0x100000001b3);
        }
        h ^= idx.wrapping_mul(0x9E3779B97F4A7C15);
        Rng::new(h)
    }
    pub fn u64(&mut self) -> u64 {
        let r = self.s[1].wrapping_mul(5).rotate_left(7).wrapping_mul(9);
        let t = self.s[1] << 17;
        self.s[2] ^= self.s[0];
        self.s[3] ^= self.s[1];
        self.s[1] ^= self.s[2];
        self.s[0] ^= self.s[3];
        self.s[2] ^= t;
        self.s[3] = self.s[3].rotate_left(45);
        r
    }
    pub fn u32(&mut self) -> u32 { (self.u64() >> 32) as u32 }
    /// Uniform in 0..n (n > 0).
    pub fn below(&mut self, n: u64) -> u64 {
        if n <= 1 { return 0 }
        self.u64() % n
    }
    pub fn usize(&mut self, n: usize) -> usize { self.below(n as u64) as usize }
    /// Uniform in lo..=hi.
    pub fn range(&mut self, lo: i64, hi: i64) -> i64 {
        lo + self.below((hi - lo + 1) as u64) as i64
    }
    pub fn chance(&mut self, num: u64, den: u64) -> bool { self.below(den) < num }
    pub fn bool(&mut self) -> bool { self.u64() & 1 == 1 }
    pub fn pick<'a, T>(&mut self, xs: &'a [T]) -> &'a T { &xs[self.usize(xs.len())] }
    pub fn shuffle<T>(&mut self, xs: &mut [T]) {
        for i in (1..xs.len()).rev() {
            let j = self.usize(i + 1);
            xs.swap(i, j);
        }
    }
    /// Random bytes with a length of `lo + below(span)`.
    pub fn bytes_span(&mut self, lo: usize, span: usize) -> Vec<u8> {
        let n = lo + self.usize(span.max(1));
        self.bytes(n)
    }
    pub fn bytes(&mut self, n: usize) -> Vec<u8> {
        (0..n).map(|_| self.u64() as u8).collect()
    }
}

//------------ Report --------------------------------------------------------

#[derive(Clone, Debug, Serialize, Deserialize)]
pub struct Violation {
    /// Stable cause-class signature (matched against known_findings.json).
    pub signature: String,
    /// Human readable description.
    pub what: String,
    /// Everything needed to replay the case.
    pub replay: Value,
}

/// What one shard (or a whole check) observed.
#[derive(Clone, Debug, Default, Serialize, Deserialize)]
pub struct Report {
    pub evaluations: u64,
    /// Distinct non-trivial case classes with their multiplicity.
    pub classes: BTreeMap<String, u64>,
    pub samples: Vec<Value>,
    pub violations: Vec<Violation>,
    pub counters: BTreeMap<String, u64>,
    /// Reasons the shard could not decide something.
    pub inconclusive: Vec<String>,
    pub notes: Vec<String>,
}

impl Report {
    pub fn eval(&mut self) { self.evaluations += 1; }
    pub fn class(&mut self, c: impl Into<String>) {
        *self.classes.entry(c.into()).or_insert(0) += 1;
    }
    pub fn count(&mut self, k: &str, n: u64) {
        *self.counters.entry(k.to_string()).or_insert(0) += n;
    }
    pub fn max(&mut self, k: &str, n: u64) {
        let e = self.counters.entry(k.to_string()).or_insert(0);
        if n > *e { *e = n }
    }
    pub fn sample(&mut self, v: Value) {
        if self.samples.len() < 6 { self.samples.push(v) }
    }
    pub fn violation(&mut self, signature: impl Into<String>, what: impl Into<String>, replay: Value) {
        // Keep at most 4 witnesses per signature (and 400 in total) per shard, but
        // count every occurrence, so that a new cause is never crowded out by a
        // frequent one.
        let signature = signature.into();
        *self.counters.entry(format!("violations_seen:{signature}")).or_insert(0) += 1;
        let same = self.violations.iter().filter(|v| v.signature == signature).count();
        if same < 4 && self.violations.len() < 400 {
            self.violations.push(Violation { signature, what: what.into(), replay });
        }
        else {
            self.count("violations_dropped", 1);
        }
    }
    pub fn inconclusive(&mut self, why: impl Into<String>) {
        if self.inconclusive.len() < 20 { self.inconclusive.push(why.into()) }
    }
    pub fn note(&mut self, n: impl Into<String>) {
        if self.notes.len() < 20 { self.notes.push(n.into()) }
    }
    pub fn merge(&mut self, other: Report) {
        self.evaluations += other.evaluations;
        for (k, v) in other.classes { *self.classes.entry(k).or_insert(0) += v; }
        for s in other.samples { self.sample(s) }
        self.violations.extend(other.violations);
        for (k, v) in other.counters {
            if k.starts_with("max_") { self.max(&k, v) } else { self.count(&k, v) }
        }
        self.inconclusive.extend(other.inconclusive);
        for n in other.notes { self.note(n) }
    }
}

//------------ Check description ---------------------------------------------

#[derive(Clone, Copy, Debug, PartialEq, Eq)]
pub enum Tier { Quick, Thorough }


impl Tier {
    pub fn name(self) -> &'static str {
        match self { Tier::Quick => "quick", Tier::Thorough => "thorough" }
    }
    pub fn pick<T>(self, quick: T, thorough: T) -> T {
        match self { Tier::Quick => quick, Tier::Thorough => thorough }
    }
}

/// Context handed to a shard.
pub struct Ctx {
    pub id: &'static str,
    pub tier: Tier,
    pub seed: u64,
    pub shard: usize,
    pub shards: usize,
    pub replay: Option<Value>,
    /// Scratch directory of this shard (removed by the supervisor).
    pub scratch: PathBuf,
    progress: Option<std::fs::File>,
    pub deadline: Instant,
}

impl Ctx {
    pub fn rng(&self, tag: &str) -> Rng {
        Rng::derive(self.seed, &format!("{}/{}", self.id, tag), self.shard as u64)
    }
    /// Records the case in flight so that a crash can be attributed.
    pub fn begin_case(&mut self, desc: &Value) {
        if let Some(f) = self.progress.as_mut() {
            use std::io::{Seek, SeekFrom};
            let s = desc.to_string();
            let _ = f.set_len(0);
            let _ = f.seek(SeekFrom::Start(0));
            let _ = f.write_all(s.as_bytes());
            let _ = f.flush();
        }
    }
    pub fn time_left(&self) -> bool { Instant::now() < self.deadline }
    /// Splits `n` items over shards; returns this shard's item indices.
    pub fn my_items(&self, n: usize) -> impl Iterator<Item = usize> + '_ {
        (0..n).filter(move |i| i % self.shards == self.shard)
    }
}

pub struct Check {
    pub id: &'static str,
    pub level: &'static str,
    pub rule: &'static str,
    pub assumptions: &'static [&'static str],
    /// Number of worker processes (0 = one per core, capped at 16).
    pub shards: fn(Tier) -> usize,
    /// Generous wall-clock watchdog per shard (inconclusive when hit).
    pub watchdog: fn(Tier) -> Duration,
    /// Soft time budget handed to the shard as a deadline.
    pub budget: fn(Tier) -> Duration,
    pub run: fn(&mut Ctx, &mut Report),
    /// Is a crashed worker (abort, signal) a violation of this property?
    pub crash_is_violation: bool,
    /// Optional post-processing on the merged report (supervisor side).
    pub finish: Option<fn(Tier, &mut Report)>,
}

//------------ Known findings ------------------------------------------------

#[derive(Clone, Debug, Deserialize, Serialize)]
pub struct Finding {
    pub property: String,
    pub signature: String,
    pub status: String,
    #[serde(default)]
    pub commit: Option<String>,
    pub what: String,
}

pub fn load_findings() -> Vec<Finding> {
    let path = Path::new(VERIF_DIR).join("known_findings.json");
    match std::fs::read(&path) {
        Ok(data) => {
            #[derive(Deserialize)]
            struct File { findings: Vec<Finding> }
            serde_json::from_slice::<File>(&data).map(|f| f.findings).unwrap_or_else(|e| {
                eprintln!("known_findings.json unreadable: {e}");
                Vec::new()
            })
        }
        Err(_) => Vec::new(),
    }
}

//------------ Worker side ---------------------------------------------------

pub fn worker_main(check: &Check, tier: Tier, seed: u64, shard: usize, shards: usize,
                   scratch: &Path, replay: Option<Value>) -> i32 {
    let progress = std::fs::File::create(scratch.join("progress")).ok();
    let mut ctx = Ctx {
        id: check.id, tier, seed, shard, shards, replay,
        scratch: scratch.to_path_buf(), progress,
        deadline: Instant::now() + {
            // sanitizer legs set their own soft budget (the work is 25x - 10000x slower there)
            let b = (check.budget)(tier);
            match std::env::var("RV_BUDGET_SECS").ok().and_then(|s| s.parse::<u64>().ok()) { Some(n) => Duration::from_secs(n), None => b }
        },
    };
    let mut report = Report::default();
    // Self-test of the sanitizer legs (never set by a registered command): a deliberate out-of-bounds heap read,
    // which valgrind memcheck and Miri must both report.
    if std::env::var("RV_SELFTEST_OOB").is_ok() {
        let v = vec![1u8; 16];
        let x = unsafe { std::ptr::read_volatile(v.as_ptr().add(40)) };
        report.note(format!("self-test read {x}"));
    }
    let res = std::panic::catch_unwind(std::panic::AssertUnwindSafe(|| {
        (check.run)(&mut ctx, &mut report);
    }));
    if let Err(err) = res {
        let msg = if let Some(s) = err.downcast_ref::<String>() { s.clone() }
            else if let Some(s) = err.downcast_ref::<&str>() { s.to_string() }
            else { "panic".to_string() };
        report.inconclusive(format!("harness panic in shard {shard}: {msg}"));
    }
    let out = serde_json::to_vec(&report).unwrap();
    let _ = std::fs::write(scratch.join("report.json"), out);
    0
}

//------------ Supervisor ----------------------------------------------------

fn scratch_root() -> PathBuf {
    let base = std::env::var("RV_SCRATCH").unwrap_or_else(|_| "/var/tmp/rv-scratch".into());
    PathBuf::from(base)
}

pub fn supervise(check: &Check, tier: Tier, seed: u64, replay: Option<(PathBuf, Value)>) -> i32 {
    let start = Instant::now();
    let mut shards = (check.shards)(tier);
    if shards == 0 { shards = 16 }
    if replay.is_some() { shards = 1 }
    let root = scratch_root().join(format!("{}-{}-{}", check.id, std::process::id(), seed));
    let _ = std::fs::remove_dir_all(&root);
    std::fs::create_dir_all(&root).expect("scratch dir");
    let exe = std::env::current_exe().expect("current exe");
    let mut children = Vec::new();
    for shard in 0..shards {
        let dir = root.join(format!("s{shard}"));
        std::fs::create_dir_all(&dir).unwrap();
        let mut cmd = Command::new(&exe);
        cmd.arg("worker").arg(check.id).arg(tier.name()).arg(seed.to_string())
            .arg(shard.to_string()).arg(shards.to_string()).arg(&dir);
        if let Some((path, _)) = replay.as_ref() { cmd.arg(path); }
        cmd.stdin(Stdio::null());
        let log = std::fs::File::create(dir.join("worker.log")).unwrap();
        cmd.stdout(log.try_clone().unwrap()).stderr(log);
        let child = cmd.spawn().expect("spawn worker");
        children.push((shard, dir, child));
    }
    let watchdog = (check.watchdog)(tier);
    let mut merged = Report::default();
    let mut crashed = Vec::new();
    for (shard, dir, mut child) in children {
        let status = loop {
            match child.try_wait() {
                Ok(Some(status)) => break Some(status),
                Ok(None) => {
                    if start.elapsed() > watchdog {
                        let _ = child.kill();
                        let _ = child.wait();
                        break None
                    }
                    std::thread::sleep(Duration::from_millis(20));
                }
                Err(_) => break None,
            }
        };
        let report = std::fs::read(dir.join("report.json")).ok()
            .and_then(|d| serde_json::from_slice::<Report>(&d).ok());
        match (status, report) {
            (Some(st), Some(r)) if st.success() => merged.merge(r),
            (None, _) => {
                let case = std::fs::read_to_string(dir.join("progress")).unwrap_or_default();
                merged.inconclusive(format!(
                    "shard {shard}: wall-clock watchdog ({}s) fired; case in flight: {}",
                    watchdog.as_secs(), truncate(&case, 300)));
            }
            (Some(st), _) => {
                let case = std::fs::read_to_string(dir.join("progress")).unwrap_or_default();
                let log = tail(&dir.join("worker.log"), 2000);
                crashed.push((shard, format!("{st}"), case, log));
            }
        }
    }
    for (shard, st, case, log) in crashed {
        if check.crash_is_violation && !case.is_empty() {
            let case_v: Value = serde_json::from_str(&case).unwrap_or(Value::String(case.clone()));
            let sig = case_v.get("crash_signature").and_then(|v| v.as_str())
                .map(|s| s.to_string())
                .unwrap_or_else(|| format!("{}/crash", check.id));
            merged.violation(sig,
                format!("worker process died ({st}) while running a case: {}", truncate(&log, 600)),
                json!({"case": case_v, "status": st}));
        }
        else {
            merged.inconclusive(format!(
                "shard {shard}: worker died ({st}); case in flight: {}; log tail: {}",
                truncate(&case, 200), truncate(&log, 600)));
        }
    }
    if let Some(finish) = check.finish { finish(tier, &mut merged) }
    if replay.is_none() && (tier == Tier::Thorough || std::env::var("RV_SANITIZER_LEGS").is_ok()) {
        crate::sanitize::legs(check, seed, &root, &mut merged);
    }
    let _ = std::fs::remove_dir_all(&root);
    conclude(check, tier, seed, merged, start.elapsed())
}

fn truncate(s: &str, n: usize) -> String {
    if s.len() <= n { s.to_string() } else {
        let mut end = n; while !s.is_char_boundary(end) { end -= 1 }
        format!("{}…", &s[..end])
    }
}

fn tail(path: &Path, n: usize) -> String {
    let data = std::fs::read(path).unwrap_or_default();
    let start = data.len().saturating_sub(n);
    String::from_utf8_lossy(&data[start..]).into_owned()
}

/// Writes evidence, prints verdict lines and returns the exit code.
pub fn conclude(check: &Check, tier: Tier, seed: u64, report: Report, wall: Duration) -> i32 {
    let findings = load_findings();
    let mut known: BTreeMap<String, (String, u64)> = BTreeMap::new();
    let mut fresh: Vec<&Violation> = Vec::new();
    for v in &report.violations {
        let hit = findings.iter().find(|f| {
            f.property == check.id && f.status == "open" && f.signature == v.signature
        });
        match hit {
            Some(f) => {
                let seen = report.counters.get(&format!("violations_seen:{}", f.signature)).copied().unwrap_or(0);
                let e = known.entry(f.signature.clone()).or_insert((f.what.clone(), 0));
                e.1 = e.1.max(seen).max(1);
            }
            None => fresh.push(v),
        }
    }
    for (sig, (what, n)) in &known {
        println!("KNOWN-FINDING: property={} {} [{}; observed {} time(s) in this run]",
            check.id, what, sig, n);
    }
    let mut replay_paths = Vec::new();
    let mut seen = BTreeSet::new();
    let replay_dir = Path::new(VERIF_DIR).join("replays");
    let _ = std::fs::create_dir_all(&replay_dir);
    for (n, v) in fresh.iter().enumerate() {
        if !seen.insert(v.signature.clone()) && n >= 5 { continue }
        let path = replay_dir.join(format!("{}-{}-{}.json", check.id, seed, n));
        let doc = json!({
            "property": check.id, "seed": seed, "tier": tier.name(),
            "signature": v.signature, "what": v.what, "replay": v.replay,
        });
        let _ = std::fs::write(&path, serde_json::to_vec_pretty(&doc).unwrap());
        println!("VIOLATION property={} replay={}", check.id, path.display());
        println!("  signature: {}", v.signature);
        println!("  what: {}", truncate(&v.what, 1500));
        replay_paths.push(path);
        if replay_paths.len() >= 10 { break }
    }
    if !fresh.is_empty() {
        let mut by_sig: BTreeMap<&str, u64> = BTreeMap::new();
        for v in &fresh { *by_sig.entry(v.signature.as_str()).or_insert(0) += 1; }
        println!("  violation signatures ({} distinct):", by_sig.len());
        for (s, n) in &by_sig { println!("    {n:>5}  {s}"); }
    }
    let distinct = report.classes.len() as u64;
    let mut samples = report.samples.clone();
    if samples.is_empty() { samples.push(json!("no sample recorded")) }
    let evidence = json!({
        "property_id": check.id,
        "tier": tier.name(),
        "seed": seed,
        "level": check.level,
        "coverage": {
            "evaluations": report.evaluations,
            "distinct_nontrivial": distinct,
            "rule": check.rule,
            "samples": samples,
            "classes_observed": report.classes.iter().take(60)
                .map(|(k, v)| (k.clone(), json!(v))).collect::<serde_json::Map<_, _>>(),
            "monitor_counters": report.counters,
            "known_findings_observed": known.iter()
                .map(|(k, v)| (k.clone(), json!(v.1))).collect::<serde_json::Map<_, _>>(),
            "inconclusive": report.inconclusive,
            "notes": report.notes,
        },
        "assumptions": check.assumptions,
        "wall_s": (wall.as_millis() as f64) / 1000.0,
        "violations": fresh.len(),
    });
    let ev_dir = Path::new(VERIF_DIR).join("evidence");
    let _ = std::fs::create_dir_all(&ev_dir);
    let _ = std::fs::write(ev_dir.join(format!("{}.json", check.id)),
        serde_json::to_vec_pretty(&evidence).unwrap());

    println!("{} {} seed={} evaluations={} distinct_nontrivial={} violations={} known={} inconclusive={} wall={:.1}s",
        check.id, tier.name(), seed, report.evaluations, distinct, fresh.len(),
        known.len(), report.inconclusive.len(), wall.as_secs_f64());
    for (k, v) in &report.counters { if !k.starts_with("violations_seen:") { println!("  counter {k} = {v}"); } }
    if !fresh.is_empty() {
        return 1
    }
    if !report.inconclusive.is_empty() {
        for why in &report.inconclusive { println!("INCONCLUSIVE {}: {}", check.id, truncate(why, 800)); }
        // Inconclusive parts never count as violation. If the monitors still
        // observed enough, the check passes; otherwise it is broken (exit 2).
    }
    if report.evaluations == 0 || distinct < 2 {
        println!("INCONCLUSIVE {}: monitors observed too little (evaluations={}, distinct={})",
            check.id, report.evaluations, distinct);
        return 2
    }
    if report.inconclusive.len() as u64 > 0 && report.counters.get("inconclusive_fatal").copied().unwrap_or(0) > 0 {
        return 2
    }
    0
}
