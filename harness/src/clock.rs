//! Virtual wall clock: the `rv` binary defines `clock_gettime` itself (see
//! the macro below), adding a settable offset to CLOCK_REALTIME only.
//! CLOCK_MONOTONIC and all other clocks pass through.

use std::sync::atomic::{AtomicI64, Ordering};

pub static OFFSET_SECS: AtomicI64 = AtomicI64::new(0);

/// Moves the virtual wall clock to `secs` ahead of the real one.
pub fn set_offset(secs: i64) { OFFSET_SECS.store(secs, Ordering::SeqCst); }
pub fn offset() -> i64 { OFFSET_SECS.load(Ordering::SeqCst) }

/// The current virtual time as unix seconds.
pub fn now() -> i64 { chrono::Utc::now().timestamp() }

/// Returns true if the shim is active (SystemTime follows the offset).
pub fn self_test() -> bool {
    let before = std::time::SystemTime::now();
    let old = offset();
    set_offset(old + 1000);
    let after = std::time::SystemTime::now();
    set_offset(old);
    after.duration_since(before).map(|d| d.as_secs() >= 999).unwrap_or(false)
}

#[macro_export]
macro_rules! define_clock_shim {
    () => {
        #[no_mangle]
        pub unsafe extern "C" fn clock_gettime(clk: libc::clockid_t, ts: *mut libc::timespec) -> libc::c_int {
            let r = libc::syscall(libc::SYS_clock_gettime, clk as libc::c_long, ts) as libc::c_int;
            if r == 0 && clk == libc::CLOCK_REALTIME && !ts.is_null() {
                (*ts).tv_sec += $crate::clock::OFFSET_SECS.load(std::sync::atomic::Ordering::Relaxed) as libc::time_t;
            }
            r
        }
    };
}
