//! Generator of payload data sets over a small item universe, plus the
//! sequential reference model (sets of origins and router keys, a map from
//! customer to providers) used by the delta/history/server oracles.

use std::collections::{BTreeMap, BTreeSet};
use std::net::{IpAddr, Ipv4Addr, Ipv6Addr};
use std::sync::Arc;
use bytes::Bytes;
use routinator::payload::{PayloadDelta, PayloadInfo, PayloadSnapshot};
use routinator::slurm::ExceptionInfo;
use rpki::resources::{Asn, MaxLenPrefix, Prefix};
use rpki::rtr::payload::{Action, Aspa, PayloadRef, RouteOrigin, RouterKey};
use rpki::rtr::pdu::{ProviderAsns, RouterKeyInfo};
use rpki::crypto::keys::KeyIdentifier;
use serde_json::{json, Value};
use crate::core::Rng;

pub fn info() -> PayloadInfo {
    PayloadInfo::from(Arc::new(ExceptionInfo::default()))
}

pub fn origin(idx: u32) -> RouteOrigin {
    // A universe of origins with many near-collisions: same prefix with
    // different max-len, same prefix with different ASN, v4 and v6.
    let asn = Asn::from_u32(64500 + (idx % 3));
    let which = (idx / 3) % 16;
    let (prefix, max) = match which {
        0 => (Prefix::new_v4(Ipv4Addr::new(10, 0, 0, 0), 8).unwrap(), None),
        1 => (Prefix::new_v4(Ipv4Addr::new(10, 0, 0, 0), 8).unwrap(), Some(16)),
        2 => (Prefix::new_v4(Ipv4Addr::new(10, 0, 0, 0), 8).unwrap(), Some(24)),
        3 => (Prefix::new_v4(Ipv4Addr::new(10, 1, 0, 0), 16).unwrap(), None),
        4 => (Prefix::new_v4(Ipv4Addr::new(10, 1, 0, 0), 16).unwrap(), Some(24)),
        5 => (Prefix::new_v4(Ipv4Addr::new(192, 0, 2, 0), 24).unwrap(), None),
        6 => (Prefix::new_v4(Ipv4Addr::new(192, 0, 2, 0), 24).unwrap(), Some(32)),
        7 => (Prefix::new_v4(Ipv4Addr::new(0, 0, 0, 0), 0).unwrap(), Some(8)),
        8 => (Prefix::new_v4(Ipv4Addr::new(255, 255, 255, 255), 32).unwrap(), None),
        9 => (Prefix::new_v6(Ipv6Addr::new(0x2001, 0xdb8, 0, 0, 0, 0, 0, 0), 32).unwrap(), None),
        10 => (Prefix::new_v6(Ipv6Addr::new(0x2001, 0xdb8, 0, 0, 0, 0, 0, 0), 32).unwrap(), Some(48)),
        11 => (Prefix::new_v6(Ipv6Addr::new(0x2001, 0xdb8, 1, 0, 0, 0, 0, 0), 48).unwrap(), None),
        12 => (Prefix::new_v6(Ipv6Addr::new(0x2001, 0xdb8, 1, 0, 0, 0, 0, 0), 48).unwrap(), Some(128)),
        13 => (Prefix::new_v6(Ipv6Addr::new(0, 0, 0, 0, 0, 0, 0, 0), 0).unwrap(), Some(1)),
        14 => (Prefix::new_v6(Ipv6Addr::new(0xffff, 0xffff, 0xffff, 0xffff, 0xffff, 0xffff, 0xffff, 0xffff), 128).unwrap(), None),
        _ => (Prefix::new_v4(Ipv4Addr::new(198, 51, 100, 0), 24).unwrap(), Some(25)),
    };
    RouteOrigin::new(MaxLenPrefix::new(prefix, max).unwrap(), asn)
}

/// An origin drawn from a large universe (index used as address bits).
pub fn wide_origin(n: u32, asn: u32) -> RouteOrigin {
    if n & 1 == 0 {
        let addr = Ipv4Addr::from((n >> 1) << 8);
        RouteOrigin::new(
            MaxLenPrefix::new(Prefix::new_v4(addr, 24).unwrap(), None).unwrap(),
            Asn::from_u32(asn))
    }
    else {
        let addr = Ipv6Addr::from(((0x2001_0db8u128) << 96) | (((n >> 1) as u128) << 64));
        RouteOrigin::new(
            MaxLenPrefix::new(Prefix::new_v6(addr, 64).unwrap(), Some(64)).unwrap(),
            Asn::from_u32(asn))
    }
}

pub fn router_key(idx: u32) -> RouterKey {
    let mut ki = [0u8; 20];
    ki[0] = (idx % 3) as u8;
    let asn = Asn::from_u32(64600 + ((idx / 3) % 3));
    let info_len = [0usize, 1, 91][((idx / 9) % 3) as usize];
    let info = vec![0x30 + (idx / 27 % 2) as u8; info_len];
    RouterKey::new(KeyIdentifier::from(ki), asn, RouterKeyInfo::new(Bytes::from(info)).unwrap())
}

pub fn providers(bits: u32) -> ProviderAsns {
    let mut v = Vec::new();
    for i in 0..6 {
        if bits & (1 << i) != 0 { v.push(Asn::from_u32(64700 + i)); }
    }
    ProviderAsns::try_from_iter(v).unwrap()
}

//------------ Model ---------------------------------------------------------

/// The sequential reference model of a data set.
#[derive(Clone, Debug, Default, PartialEq, Eq)]
pub struct Model {
    pub origins: BTreeSet<RouteOrigin>,
    pub keys: BTreeSet<RouterKey>,
    pub aspas: BTreeMap<Asn, ProviderAsns>,
}

impl Model {
    /// Random model with random density.
    pub fn rand(rng: &mut Rng) -> Self { let d = 1 + rng.below(7); Self::random(rng, d) }

    pub fn random(rng: &mut Rng, density: u64) -> Self {
        let mut m = Model::default();
        // density: numerator out of 8 of including each universe item.
        let no = [0u32, 6, 48][rng.usize(3)];
        for i in 0..no { if rng.chance(density, 8) { m.origins.insert(origin(i)); } }
        let nk = [0u32, 4, 54][rng.usize(3)];
        for i in 0..nk { if rng.chance(density, 8) { m.keys.insert(router_key(i)); } }
        let na = [0u32, 3, 8][rng.usize(3)];
        for i in 0..na {
            if rng.chance(density, 8) {
                m.aspas.insert(Asn::from_u32(64800 + i), providers(rng.u32() % 64));
            }
        }
        m
    }

    /// A small mutation of `self` (biased to add-then-remove patterns).
    pub fn mutate(&self, rng: &mut Rng) -> Self {
        let mut m = self.clone();
        let n = rng.usize(5);
        for _ in 0..n {
            match rng.usize(6) {
                0 => { let o = origin(rng.u32() % 48); if !m.origins.remove(&o) { m.origins.insert(o); } }
                1 => { let k = router_key(rng.u32() % 54); if !m.keys.remove(&k) { m.keys.insert(k); } }
                2 => {
                    let c = Asn::from_u32(64800 + rng.u32() % 8);
                    if m.aspas.remove(&c).is_none() { m.aspas.insert(c, providers(rng.u32() % 64)); }
                }
                3 => {
                    // change providers of an existing customer
                    if let Some(c) = m.aspas.keys().nth(rng.usize(m.aspas.len().max(1))).cloned() {
                        m.aspas.insert(c, providers(rng.u32() % 64));
                    }
                }
                4 => { m.origins.clear(); }
                _ => { m.origins.insert(origin(rng.u32() % 48)); }
            }
        }
        m
    }

    pub fn snapshot(&self) -> PayloadSnapshot {
        PayloadSnapshot::new(
            self.origins.iter().map(|o| (*o, info())),
            self.keys.iter().map(|k| (k.clone(), info())),
            self.aspas.iter().map(|(c, p)| (Aspa::new(*c, p.clone()), info())),
            None,
        )
    }

    pub fn snapshot_with_refresh(&self, refresh: Option<rpki::repository::x509::Time>) -> PayloadSnapshot {
        PayloadSnapshot::new(
            self.origins.iter().map(|o| (*o, info())),
            self.keys.iter().map(|k| (k.clone(), info())),
            self.aspas.iter().map(|(c, p)| (Aspa::new(*c, p.clone()), info())),
            refresh,
        )
    }

    pub fn from_snapshot(s: &PayloadSnapshot) -> Self {
        let mut m = Model::default();
        for (o, _) in s.origins() { m.origins.insert(o); }
        for (k, _) in s.router_keys() { m.keys.insert(k.clone()); }
        for (a, _) in s.aspas() { m.aspas.insert(a.customer, a.providers.clone()); }
        m
    }

    pub fn len(&self) -> usize { self.origins.len() + self.keys.len() + self.aspas.len() }

    /// Applies one action the way a router would. Returns an error text if
    /// the action is not applicable (announce of present item, withdraw of
    /// absent item).
    pub fn apply(&mut self, payload: PayloadRef<'_>, action: Action) -> Result<(), String> {
        match payload {
            PayloadRef::Origin(o) => match action {
                Action::Announce => if !self.origins.insert(o) {
                    return Err(format!("announce of origin already present: {}", fmt_origin(&o)))
                },
                Action::Withdraw => if !self.origins.remove(&o) {
                    return Err(format!("withdraw of origin not present: {}", fmt_origin(&o)))
                },
            },
            PayloadRef::RouterKey(k) => match action {
                Action::Announce => if !self.keys.insert(k.clone()) {
                    return Err("announce of router key already present".into())
                },
                Action::Withdraw => if !self.keys.remove(k) {
                    return Err("withdraw of router key not present".into())
                },
            },
            PayloadRef::Aspa(a) => match action {
                Action::Announce => {
                    if self.aspas.get(&a.customer) == Some(&a.providers) {
                        return Err(format!("announce of unchanged ASPA {}", a.customer))
                    }
                    self.aspas.insert(a.customer, a.providers.clone());
                }
                Action::Withdraw => if self.aspas.remove(&a.customer).is_none() {
                    return Err(format!("withdraw of ASPA not present {}", a.customer))
                },
            },
        }
        Ok(())
    }

    pub fn apply_delta(&mut self, delta: &PayloadDelta) -> Result<(), String> {
        for (p, a) in delta.actions() { self.apply(p, a)? }
        Ok(())
    }

    /// The expected actions from self to new, in the order the
    /// implementation documents (sorted by payload, per type).
    pub fn expected_actions(&self, new: &Model) -> Vec<String> {
        let mut res = Vec::new();
        let mut o: Vec<(RouteOrigin, Action)> = new.origins.difference(&self.origins)
            .map(|x| (*x, Action::Announce))
            .chain(self.origins.difference(&new.origins).map(|x| (*x, Action::Withdraw)))
            .collect();
        o.sort_by(|a, b| a.0.cmp(&b.0));
        for (x, a) in o { res.push(format!("{} {}", act(a), fmt_origin(&x))); }
        let mut k: Vec<(RouterKey, Action)> = new.keys.difference(&self.keys)
            .map(|x| (x.clone(), Action::Announce))
            .chain(self.keys.difference(&new.keys).map(|x| (x.clone(), Action::Withdraw)))
            .collect();
        k.sort_by(|a, b| a.0.cmp(&b.0));
        for (x, a) in k { res.push(format!("{} {}", act(a), fmt_key(&x))); }
        let mut customers: BTreeSet<Asn> = self.aspas.keys().cloned().collect();
        customers.extend(new.aspas.keys().cloned());
        for c in customers {
            match (self.aspas.get(&c), new.aspas.get(&c)) {
                (Some(_), None) => res.push(format!("W aspa {} []", c)),
                (None, Some(p)) => res.push(format!("A aspa {} {}", c, fmt_prov(p))),
                (Some(a), Some(b)) if a != b => res.push(format!("A aspa {} {}", c, fmt_prov(b))),
                _ => {}
            }
        }
        res
    }

    pub fn to_json(&self) -> Value {
        json!({
            "origins": self.origins.iter().map(fmt_origin).collect::<Vec<_>>(),
            "router_keys": self.keys.iter().map(fmt_key).collect::<Vec<_>>(),
            "aspas": self.aspas.iter().map(|(c, p)| format!("{} {}", c, fmt_prov(p))).collect::<Vec<_>>(),
        })
    }

    /// A stable fingerprint of the content.
    pub fn fingerprint(&self) -> String {
        use std::hash::{Hash, Hasher};
        let mut h = std::collections::hash_map::DefaultHasher::new();
        for o in &self.origins { fmt_origin(o).hash(&mut h) }
        for k in &self.keys { fmt_key(k).hash(&mut h) }
        for (c, p) in &self.aspas { c.hash(&mut h); fmt_prov(p).hash(&mut h) }
        format!("{:016x}/{}", h.finish(), self.len())
    }
}

pub fn act(a: Action) -> &'static str {
    match a { Action::Announce => "A", Action::Withdraw => "W" }
}

pub fn fmt_origin(o: &RouteOrigin) -> String {
    format!("{}/{}-{} {}", o.prefix.addr(), o.prefix.prefix_len(), o.prefix.resolved_max_len(), o.asn)
}

pub fn fmt_key(k: &RouterKey) -> String {
    format!("key {} {} {}", k.key_identifier, k.asn, hex(k.key_info.as_slice()))
}

pub fn fmt_prov(p: &ProviderAsns) -> String {
    let v: Vec<String> = p.iter().map(|a| a.to_string()).collect();
    format!("[{}]", v.join(","))
}

pub fn fmt_action(p: PayloadRef<'_>, a: Action) -> String {
    match p {
        PayloadRef::Origin(o) => format!("{} {}", act(a), fmt_origin(&o)),
        PayloadRef::RouterKey(k) => format!("{} {}", act(a), fmt_key(k)),
        PayloadRef::Aspa(x) => format!("{} aspa {} {}", act(a), x.customer, fmt_prov(&x.providers)),
    }
}

pub fn hex(b: &[u8]) -> String {
    b.iter().map(|x| format!("{:02x}", x)).collect()
}

pub fn ip_bits(addr: IpAddr) -> (bool, u128) {
    match addr {
        IpAddr::V4(a) => (true, (u32::from(a) as u128) << 96),
        IpAddr::V6(a) => (false, u128::from(a)),
    }
}
