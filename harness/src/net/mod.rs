//! Fake network: TLS-terminating CONNECT proxy that plays every HTTPS
//! server, and an RRDP server model on top of it.

pub mod https;
pub mod rrdp;
