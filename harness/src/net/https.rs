//! An in-process HTTP proxy: accepts `CONNECT host:443`, terminates TLS with
//! the committed wildcard test certificate and answers requests from a
//! script. Every CONNECT and every request line is logged before it is
//! answered.

use std::collections::HashMap;
use std::net::SocketAddr;
use std::path::Path;
use std::sync::{Arc, Mutex};
use std::time::Duration;
use tokio::io::{AsyncReadExt, AsyncWriteExt};
use tokio::net::{TcpListener, TcpStream};
use tokio_rustls::rustls;
use tokio_rustls::TlsAcceptor;

#[derive(Clone, Debug, Default)]
pub struct Reply {
    pub status: u16,
    pub headers: Vec<(String, String)>,
    pub body: Vec<u8>,
    /// Send the body chunked (no Content-Length).
    pub chunked: bool,
    /// Cut the connection after this many body bytes.
    pub truncate: Option<usize>,
    pub delay_ms: u64,
    /// Answer 304 if the request carries If-None-Match equal to this ETag.
    pub etag: Option<String>,
}

impl Reply {
    pub fn ok(body: Vec<u8>) -> Self { Reply { status: 200, body, ..Default::default() } }
    pub fn status(code: u16) -> Self { Reply { status: code, ..Default::default() } }
}

#[derive(Clone, Debug)]
pub struct LoggedRequest {
    pub mono: u128,
    /// "CONNECT" or the HTTP method.
    pub method: String,
    pub host: String,
    pub path: String,
    pub headers: Vec<(String, String)>,
}

#[derive(Default)]
pub struct Script {
    /// "host/path" -> reply
    pub replies: HashMap<String, Reply>,
    /// Reply for everything else.
    pub fallback: Option<Reply>,
    pub log: Vec<LoggedRequest>,
    /// Hosts that refuse the CONNECT (502).
    pub dead_hosts: Vec<String>,
}

pub struct FakeHttps {
    pub addr: SocketAddr,
    pub script: Arc<Mutex<Script>>,
    _rt: tokio::runtime::Runtime,
}

fn fixtures() -> std::path::PathBuf { Path::new(crate::core::VERIF_DIR).join("fixtures/tls") }

impl FakeHttps {
    pub fn root_cert_path() -> std::path::PathBuf { fixtures().join("ca.pem") }

    pub fn start() -> Result<Self, String> {
        let certs: Vec<_> = rustls_pemfile::certs(&mut std::io::BufReader::new(std::fs::File::open(fixtures().join("leaf.pem")).map_err(|e| e.to_string())?))
            .collect::<Result<_, _>>().map_err(|e| e.to_string())?;
        let key = rustls_pemfile::private_key(&mut std::io::BufReader::new(std::fs::File::open(fixtures().join("leaf.key")).map_err(|e| e.to_string())?))
            .map_err(|e| e.to_string())?.ok_or("no key")?;
        let config = rustls::ServerConfig::builder_with_provider(Arc::new(rustls::crypto::ring::default_provider()))
            .with_safe_default_protocol_versions().map_err(|e| e.to_string())?
            .with_no_client_auth().with_single_cert(certs, key).map_err(|e| e.to_string())?;
        let acceptor = TlsAcceptor::from(Arc::new(config));
        let rt = tokio::runtime::Builder::new_multi_thread().worker_threads(2).enable_all().build().map_err(|e| e.to_string())?;
        let std_listener = std::net::TcpListener::bind("127.0.0.1:0").map_err(|e| e.to_string())?;
        std_listener.set_nonblocking(true).map_err(|e| e.to_string())?;
        let addr = std_listener.local_addr().unwrap();
        let script: Arc<Mutex<Script>> = Arc::new(Mutex::new(Script::default()));
        let s2 = script.clone();
        rt.spawn(async move {
            let listener = TcpListener::from_std(std_listener).expect("listener");
            loop {
                let Ok((sock, _)) = listener.accept().await else { continue };
                let acceptor = acceptor.clone();
                let script = s2.clone();
                tokio::spawn(async move { let _ = serve(sock, acceptor, script).await; });
            }
        });
        Ok(FakeHttps { addr, script, _rt: rt })
    }

    pub fn proxy_url(&self) -> String { format!("http://{}", self.addr) }

    /// Applies the proxy and trust settings to a configuration.
    pub fn configure(&self, config: &mut routinator::config::Config) { Self::configure_with(config, &self.proxy_url()) }

    /// Same for a fake running in another process.
    pub fn configure_with(config: &mut routinator::config::Config, proxy_url: &str) {
        config.disable_rrdp = false;
        config.rrdp_proxies = vec![proxy_url.to_string()];
        config.rrdp_root_certs = vec![Self::root_cert_path()];
        config.rrdp_timeout = Some(Duration::from_secs(20));
        config.rrdp_connect_timeout = Some(Duration::from_secs(10));
    }

    pub fn set(&self, url: &str, reply: Reply) {
        let key = url.trim_start_matches("https://").trim_start_matches("HTTPS://");
        let key = match key.split_once('/') { Some((h, rest)) => format!("{}/{}", h.to_ascii_lowercase(), rest), None => key.to_string() };
        self.script.lock().unwrap().replies.insert(key, reply);
    }

    pub fn clear(&self) { let mut s = self.script.lock().unwrap(); s.replies.clear(); s.fallback = None; s.dead_hosts.clear(); }

    pub fn take_log(&self) -> Vec<LoggedRequest> { std::mem::take(&mut self.script.lock().unwrap().log) }
}

async fn read_head<S: AsyncReadExt + Unpin>(s: &mut S) -> Option<String> {
    let mut buf = Vec::new();
    let mut b = [0u8; 1];
    loop {
        match s.read(&mut b).await { Ok(0) => return None, Ok(_) => buf.push(b[0]), Err(_) => return None }
        if buf.ends_with(b"\r\n\r\n") { break }
        if buf.len() > 65536 { return None }
    }
    Some(String::from_utf8_lossy(&buf).into_owned())
}

async fn serve(mut sock: TcpStream, acceptor: TlsAcceptor, script: Arc<Mutex<Script>>) -> std::io::Result<()> {
    let head = match read_head(&mut sock).await { Some(h) => h, None => return Ok(()) };
    let first = head.lines().next().unwrap_or("").to_string();
    let mut parts = first.split_whitespace();
    let method = parts.next().unwrap_or("").to_string();
    let target = parts.next().unwrap_or("").to_string();
    if method != "CONNECT" {
        sock.write_all(b"HTTP/1.1 400 Bad Request\r\nContent-Length: 0\r\n\r\n").await?;
        return Ok(())
    }
    let host = target.rsplit_once(':').map(|x| x.0.to_string()).unwrap_or(target.clone());
    let dead = {
        let mut s = script.lock().unwrap();
        s.log.push(LoggedRequest { mono: crate::hooks::mono_ns(), method: "CONNECT".into(), host: host.clone(), path: target.clone(), headers: vec![] });
        s.dead_hosts.iter().any(|h| *h == host)
    };
    if dead { sock.write_all(b"HTTP/1.1 502 Bad Gateway\r\nContent-Length: 0\r\n\r\n").await?; return Ok(()) }
    sock.write_all(b"HTTP/1.1 200 Connection established\r\n\r\n").await?;
    let mut tls = match acceptor.accept(sock).await { Ok(t) => t, Err(_) => return Ok(()) };
    loop {
        let head = match read_head(&mut tls).await { Some(h) => h, None => return Ok(()) };
        let mut lines = head.split("\r\n");
        let first = lines.next().unwrap_or("");
        let mut p = first.split_whitespace();
        let method = p.next().unwrap_or("").to_string();
        let path = p.next().unwrap_or("").to_string();
        let mut headers = Vec::new();
        for l in lines { if let Some((k, v)) = l.split_once(':') { headers.push((k.trim().to_ascii_lowercase(), v.trim().to_string())); } }
        let reply = {
            let mut s = script.lock().unwrap();
            s.log.push(LoggedRequest { mono: crate::hooks::mono_ns(), method: method.clone(), host: host.clone(), path: path.clone(), headers: headers.clone() });
            let key = format!("{}{path}", host.to_ascii_lowercase());
            s.replies.get(&key).cloned().or_else(|| s.fallback.clone()).unwrap_or_else(|| Reply::status(404))
        };
        if reply.delay_ms > 0 { tokio::time::sleep(Duration::from_millis(reply.delay_ms)).await; }
        let inm = headers.iter().find(|h| h.0 == "if-none-match").map(|h| h.1.clone());
        let not_modified = reply.etag.is_some() && inm == reply.etag;
        let status = if not_modified { 304 } else { reply.status };
        let mut out = format!("HTTP/1.1 {} {}\r\n", status, if status == 200 { "OK" } else { "X" });
        for (k, v) in &reply.headers { out.push_str(&format!("{k}: {v}\r\n")); }
        if let Some(e) = &reply.etag { out.push_str(&format!("ETag: {e}\r\n")); }
        let body: &[u8] = if not_modified || status == 304 { &[] } else { &reply.body };
        if reply.chunked && !body.is_empty() { out.push_str("Transfer-Encoding: chunked\r\n\r\n"); }
        else { out.push_str(&format!("Content-Length: {}\r\n\r\n", body.len())); }
        tls.write_all(out.as_bytes()).await?;
        let send: &[u8] = match reply.truncate { Some(n) if n < body.len() => &body[..n], _ => body };
        if reply.chunked && !body.is_empty() {
            for chunk in send.chunks(8192) { tls.write_all(format!("{:x}\r\n", chunk.len()).as_bytes()).await?; tls.write_all(chunk).await?; tls.write_all(b"\r\n").await?; }
            if reply.truncate.is_none() { tls.write_all(b"0\r\n\r\n").await?; }
        }
        else { tls.write_all(send).await?; }
        tls.flush().await?;
        if reply.truncate.is_some() { let _ = tls.shutdown().await; return Ok(()) }
    }
}
