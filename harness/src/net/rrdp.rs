//! An RRDP server model: session, serial, objects, deltas; renders the
//! notification, snapshot and delta documents (by hand, so that broken
//! documents can be produced too) into the fake HTTPS script.

use std::collections::BTreeMap;
use ring::digest::{digest, SHA256};
use super::https::{FakeHttps, Reply};

pub fn sha256_hex(data: &[u8]) -> String { crate::pgen::hex(digest(&SHA256, data).as_ref()) }

fn b64(data: &[u8]) -> String { rpki::util::base64::Xml.encode(data) }

#[derive(Clone, Debug)]
pub struct DeltaDoc {
    pub serial: u64,
    /// (uri, new content, hash of replaced content if any)
    pub publishes: Vec<(String, Vec<u8>, Option<String>)>,
    /// (uri, hash of withdrawn content)
    pub withdraws: Vec<(String, String)>,
}

#[derive(Clone, Debug)]
pub struct RrdpServer {
    pub host: String,
    pub session: String,
    pub serial: u64,
    pub objects: BTreeMap<String, Vec<u8>>,
    pub deltas: Vec<DeltaDoc>,
    /// How many deltas the notification lists.
    pub list_deltas: usize,
    pub etag_counter: u64,
}

/// Faults applied when rendering.
#[derive(Clone, Debug, Default, PartialEq)]
pub struct Faults {
    pub notify_status: Option<u16>,
    pub notify_broken_xml: bool,
    pub snapshot_status: Option<u16>,
    pub snapshot_wrong_hash: bool,
    pub snapshot_broken_xml: bool,
    pub snapshot_truncated: bool,
    pub snapshot_wrong_session: bool,
    pub snapshot_wrong_serial: bool,
    /// Index (from the newest) of the delta that is faulty.
    pub delta_fault: Option<(usize, DeltaFault)>,
    /// Drop that many of the oldest needed deltas from the list (gap).
    pub delta_gap: bool,
    pub delta_duplicate: bool,
    /// Change the hash of an already known delta in the list.
    pub delta_mutated: bool,
    pub no_etag: bool,
}

#[derive(Clone, Copy, Debug, PartialEq)]
pub enum DeltaFault { Status(u16), WrongHash, BrokenXml, Truncated, WrongSession, WrongSerial, WrongObjectHash, LateWrongObjectHash }

impl RrdpServer {
    pub fn new(host: &str, session_seed: u64) -> Self {
        RrdpServer { host: host.into(), session: format!("{:08x}-0000-4000-8000-{:012x}", session_seed as u32, session_seed & 0xffff_ffff_ffff), serial: 1,
            objects: BTreeMap::new(), deltas: Vec::new(), list_deltas: 20, etag_counter: 0 }
    }

    pub fn notify_url(&self) -> String { format!("https://{}/rrdp/notification.xml", self.host) }
    pub fn snapshot_url(&self) -> String { format!("https://{}/rrdp/{}/{}/snapshot.xml", self.host, self.session, self.serial) }
    pub fn delta_url(&self, serial: u64) -> String { format!("https://{}/rrdp/{}/{}/delta.xml", self.host, self.session, serial) }

    /// Moves to the next serial with the given new object set.
    pub fn update(&mut self, new: BTreeMap<String, Vec<u8>>) {
        self.serial += 1;
        let mut d = DeltaDoc { serial: self.serial, publishes: Vec::new(), withdraws: Vec::new() };
        for (u, c) in &new {
            match self.objects.get(u) {
                None => d.publishes.push((u.clone(), c.clone(), None)),
                Some(old) if old != c => d.publishes.push((u.clone(), c.clone(), Some(sha256_hex(old)))),
                _ => {}
            }
        }
        for (u, c) in &self.objects { if !new.contains_key(u) { d.withdraws.push((u.clone(), sha256_hex(c))); } }
        self.deltas.push(d);
        self.objects = new;
        self.etag_counter += 1;
    }

    pub fn new_session(&mut self, seed: u64) {
        self.session = format!("{:08x}-0000-4000-8000-{:012x}", seed as u32, seed & 0xffff_ffff_ffff);
        self.deltas.clear();
        self.serial = 1 + seed % 5;
        self.etag_counter += 1;
    }

    pub fn snapshot_xml(&self, f: &Faults) -> Vec<u8> {
        let session = if f.snapshot_wrong_session { "11111111-2222-4333-8444-555555555555".to_string() } else { self.session.clone() };
        let serial = if f.snapshot_wrong_serial { self.serial + 1 } else { self.serial };
        let mut s = format!("<snapshot xmlns=\"http://www.ripe.net/rpki/rrdp\" version=\"1\" session_id=\"{}\" serial=\"{}\">\n", session, serial);
        for (u, c) in &self.objects { s.push_str(&format!("  <publish uri=\"{}\">{}</publish>\n", u, b64(c))); }
        if f.snapshot_broken_xml { s.push_str("  <publish uri=\"rsync://broken\">AAAA</publi"); } else { s.push_str("</snapshot>\n"); }
        s.into_bytes()
    }

    pub fn delta_xml(&self, d: &DeltaDoc, fault: Option<DeltaFault>) -> Vec<u8> {
        let session = if fault == Some(DeltaFault::WrongSession) { "11111111-2222-4333-8444-555555555555".to_string() } else { self.session.clone() };
        let serial = if fault == Some(DeltaFault::WrongSerial) { d.serial + 1 } else { d.serial };
        let mut s = format!("<delta xmlns=\"http://www.ripe.net/rpki/rrdp\" version=\"1\" session_id=\"{}\" serial=\"{}\">\n", session, serial);
        let n = d.publishes.len() + d.withdraws.len();
        let mut i = 0;
        for (u, c, h) in &d.publishes {
            i += 1;
            let bad = (fault == Some(DeltaFault::WrongObjectHash) && i == 1) || (fault == Some(DeltaFault::LateWrongObjectHash) && i == n);
            match (h, bad) {
                (Some(h), false) => s.push_str(&format!("  <publish uri=\"{}\" hash=\"{}\">{}</publish>\n", u, h, b64(c))),
                (Some(_), true) | (None, true) => s.push_str(&format!("  <publish uri=\"{}\" hash=\"{}\">{}</publish>\n", u, sha256_hex(b"not the old content"), b64(c))),
                (None, false) => s.push_str(&format!("  <publish uri=\"{}\">{}</publish>\n", u, b64(c))),
            }
        }
        for (u, h) in &d.withdraws {
            i += 1;
            let bad = (fault == Some(DeltaFault::WrongObjectHash) && i == 1) || (fault == Some(DeltaFault::LateWrongObjectHash) && i == n);
            s.push_str(&format!("  <withdraw uri=\"{}\" hash=\"{}\"/>\n", u, if bad { sha256_hex(b"other") } else { h.clone() }));
        }
        if fault == Some(DeltaFault::BrokenXml) { s.push_str("<withdraw uri=\"rsync://x\" ha"); } else { s.push_str("</delta>\n"); }
        s.into_bytes()
    }

    /// Installs all documents for the current state into the fake.
    pub fn install(&self, fake: &FakeHttps, f: &Faults) {
        let snapshot = self.snapshot_xml(f);
        let snap_hash = if f.snapshot_wrong_hash { sha256_hex(b"wrong") } else { sha256_hex(&snapshot) };
        let mut notif = format!("<notification xmlns=\"http://www.ripe.net/rpki/rrdp\" version=\"1\" session_id=\"{}\" serial=\"{}\">\n  <snapshot uri=\"{}\" hash=\"{}\"/>\n",
            self.session, self.serial, self.snapshot_url(), snap_hash);
        let listed: Vec<&DeltaDoc> = self.deltas.iter().rev().take(self.list_deltas).collect();
        let mut listed: Vec<&DeltaDoc> = listed.into_iter().rev().collect();
        if f.delta_gap && listed.len() >= 2 { listed.remove(listed.len() - 2); }
        for (idx_from_newest, d) in listed.iter().rev().enumerate() {
            let fault = f.delta_fault.and_then(|(i, df)| if i == idx_from_newest { Some(df) } else { None });
            let xml = self.delta_xml(d, fault);
            let mut hash = if fault == Some(DeltaFault::WrongHash) { sha256_hex(b"wrong delta") } else { sha256_hex(&xml) };
            if f.delta_mutated && idx_from_newest == 1 { hash = sha256_hex(b"mutated"); }
            let mut reply = match fault { Some(DeltaFault::Status(c)) => Reply::status(c), _ => Reply::ok(xml.clone()) };
            if fault == Some(DeltaFault::Truncated) { reply.truncate = Some(xml.len() / 2); }
            fake.set(&self.delta_url(d.serial), reply);
            notif.push_str(&format!("  <delta serial=\"{}\" uri=\"{}\" hash=\"{}\"/>\n", d.serial, self.delta_url(d.serial), hash));
            if f.delta_duplicate && idx_from_newest == 0 { notif.push_str(&format!("  <delta serial=\"{}\" uri=\"{}\" hash=\"{}\"/>\n", d.serial, self.delta_url(d.serial), hash)); }
        }
        if f.notify_broken_xml { notif.push_str("  <snapshot uri="); } else { notif.push_str("</notification>\n"); }
        // The ETag is derived from the document: equal tags imply byte-identical notifications.
        let tag = format!("\"{}\"", &sha256_hex(notif.as_bytes())[..20]);
        let mut nreply = match f.notify_status { Some(c) => Reply::status(c), None => Reply::ok(notif.into_bytes()) };
        if !f.no_etag { nreply.etag = Some(tag); }
        fake.set(&self.notify_url(), nreply);
        let mut sreply = match f.snapshot_status { Some(c) => Reply::status(c), None => Reply::ok(snapshot.clone()) };
        if f.snapshot_truncated { sreply.truncate = Some(snapshot.len() / 2); }
        fake.set(&self.snapshot_url(), sreply);
    }
}
