//! C26 (archive behaves like a map, layout tiles), C27 (corrupt local data
//! never crashes), C28 (every persisted record reads back as written).

use std::collections::BTreeMap;
use std::hash::Hasher;
use std::str::FromStr;
use std::time::Duration;
use bytes::Bytes;
use chrono::{TimeZone, Utc};
use serde::{Deserialize, Serialize};
use serde_json::json;
use routinator::collector::{RepositoryState, RrdpArchive};
use routinator::store::{StoredManifest, StoredObject, StoredPointHeader, StoredStatus};
use routinator::utils::archive::{
    AccessError, Archive, ArchiveError, FetchError, ObjectMeta, PublishError, StorageRead, StorageWrite,
};
use rpki::crypto::DigestAlgorithm;
use rpki::repository::manifest::ManifestHash;
use rpki::repository::x509::{Serial, Time};
use rpki::{rrdp, uri};
use siphasher::sip::SipHasher24;
use crate::core::{Check, Ctx, Report, Rng};
use crate::iso::{isolated, IsoError};

//============ generators ====================================================

fn gen_rsync(rng: &mut Rng) -> uri::Rsync {
    loop {
        let host = gen_host(rng);
        let module = gen_segment(rng, 1);
        let depth = rng.usize(5);
        let mut path = String::new();
        for i in 0..depth { if i > 0 { path.push('/') } path.push_str(&gen_segment(rng, 0)); }
        let s = format!("rsync://{host}/{module}/{path}");
        if let Ok(u) = uri::Rsync::from_str(&s) { return u }
    }
}

fn gen_https(rng: &mut Rng) -> uri::Https {
    loop {
        let host = gen_host(rng);
        let depth = rng.usize(4);
        let mut path = String::new();
        for _ in 0..depth { path.push('/'); path.push_str(&gen_segment(rng, 0)); }
        let s = format!("https://{host}{path}");
        if let Ok(u) = uri::Https::from_str(&s) { return u }
    }
}

pub fn gen_host(rng: &mut Rng) -> String {
    match rng.usize(6) {
        0 => "example.com".into(),
        1 => "Example.COM".into(),
        2 => format!("h{}.rpki.test", rng.u32() % 50),
        3 => "a".into(),
        4 => format!("{}.{}.example", "x".repeat(1 + rng.usize(60)), rng.u32() % 9),
        _ => "rpki-repo.example.net".into(),
    }
}

pub fn gen_segment(rng: &mut Rng, min: usize) -> String {
    let alphabet = b"abcdefghijklmnopqrstuvwxyzABCDEFGHIJKLMNOPQRSTUVWXYZ0123456789-._~!$&'()*+,;=:@%20";
    let n = min + match rng.usize(5) { 0 => 0, 1 => 1, 2 => 2 + rng.usize(10), 3 => 40 + rng.usize(200), _ => 3 };
    let mut s = String::new();
    for _ in 0..n.max(min) { s.push(alphabet[rng.usize(alphabet.len())] as char); }
    s
}

fn gen_ts(rng: &mut Rng) -> i64 {
    match rng.usize(10) {
        0 => 0, 1 => -1, 2 => 1, 3 => i32::MAX as i64, 4 => i32::MAX as i64 + 1,
        5 => 253_402_300_799, 6 => -62_135_596_800, 7 => 8_210_266_876_799, 8 => -8_334_601_228_800,
        _ => rng.range(-4_000_000_000, 40_000_000_000),
    }
}

fn gen_time(rng: &mut Rng) -> Time {
    loop { if let Some(t) = Utc.timestamp_opt(gen_ts(rng), 0).single() { return Time::new(t) } }
}

fn gen_bytes(rng: &mut Rng) -> Bytes {
    let n = match rng.usize(8) { 0 => 0, 1 => 1, 2 => 255, 3 => 256, 4 => 65535, 5 => 65536 + rng.usize(40_000), _ => rng.usize(2000) };
    Bytes::from(rng.bytes(n))
}

fn gen_serial(rng: &mut Rng) -> Serial {
    let mut a = [0u8; 20];
    match rng.usize(4) {
        0 => {}
        1 => { a = [0xff; 20]; a[0] = 0x7f; }
        2 => { a[19] = 1; }
        _ => { for b in a.iter_mut() { *b = rng.u64() as u8 } a[0] &= 0x7f; }
    }
    Serial::from_array(a).unwrap()
}

fn gen_manifest(rng: &mut Rng) -> StoredManifest {
    StoredManifest {
        not_after: gen_time(rng), manifest_number: gen_serial(rng), this_update: gen_time(rng),
        ca_repository: gen_rsync(rng), manifest: gen_bytes(rng), crl_uri: gen_rsync(rng), crl: gen_bytes(rng),
    }
}

fn gen_object(rng: &mut Rng) -> StoredObject {
    let content = gen_bytes(rng);
    let hash = if rng.bool() {
        Some(ManifestHash::new(Bytes::copy_from_slice(DigestAlgorithm::sha256().digest(&content).as_ref()), DigestAlgorithm::sha256()))
    } else { None };
    StoredObject::new(gen_rsync(rng), content, hash)
}

fn gen_state(rng: &mut Rng) -> RepositoryState {
    let n = match rng.usize(5) { 0 => 0, 1 => 1, 2 => 300, _ => rng.usize(40) };
    let mut delta_state = std::collections::HashMap::new();
    for _ in 0..n { delta_state.insert(match rng.usize(4) { 0 => 0, 1 => u64::MAX, _ => rng.u64() }, rrdp::Hash::from_data(&rng.bytes(8))); }
    RepositoryState {
        rpki_notify: gen_https(rng),
        session: uuid::Uuid::from_u128(((rng.u64() as u128) << 64) | rng.u64() as u128),
        serial: match rng.usize(4) { 0 => 0, 1 => u64::MAX, _ => rng.u64() },
        updated_ts: match rng.usize(4) { 0 => i64::MIN + 1, 1 => i64::MAX, _ => gen_ts(rng) },
        best_before_ts: match rng.usize(4) { 0 => i64::MAX, 1 => -12, _ => gen_ts(rng) },
        last_modified_ts: match rng.usize(4) { 0 => None, 1 => Some(i64::MAX), 2 => Some(0), _ => Some(gen_ts(rng)) },
        etag: match rng.usize(4) { 0 => None, 1 => Some(Bytes::new()), 2 => Some(Bytes::from_static(b"W/\"abc\\\"def\"")), _ => Some(Bytes::from(rng.bytes_span(1, 80))) },
        delta_state,
    }
}

const SENTINEL: &[u8] = b"\xde\xad\xbe\xefSENTINEL";

//============ C28 ===========================================================

pub const C28: Check = Check {
    id: "C28",
    level: "exploration",
    rule: "generated values of every persisted record type (stored point header, stored manifest, stored object with and \
           without hash, store status, RRDP repository state with 0..300 delta-state entries and with entry counts at and around powers of two up to 2^17 (incl. 65535/65536/65537), absent/empty/odd ETags, \
           URIs at grammar edges, second-resolution times at representable extremes, serial extremes, byte strings of \
           0..100k) are written with the real write/compose functions into a buffer followed by a sentinel, then read \
           back: decoded value must equal the written one and the reader must stand exactly at the sentinel; every eighth value is also read through readers that return at most 1, 7 or 31 bytes per call (short reads, as files and buffered readers produce). RRDP state \
           additionally goes through a real archive file (publish_state/update_state -> reopen -> load_state). \
           distinct = (record type, shape class) combinations",
    assumptions: &["time fields are generated at the one-second resolution the encoding has; the only record whose time \
                    field the harness cannot choose is the stored point header (StoredPointHeader::new stamps it itself)"],
    shards: |_| 16,
    watchdog: |t| Duration::from_secs(t.pick(300, 3600)),
    budget: |t| Duration::from_secs(t.pick(25, 300)),
    run: run_c28,
    crash_is_violation: false,
    finish: None,
};

fn roundtrip<T: PartialEq + std::fmt::Debug>(
    what: &str, class: String, value: &T,
    write: impl Fn(&T, &mut Vec<u8>) -> std::io::Result<()>,
    read: impl Fn(&mut &[u8]) -> Result<T, String>,
    rep: &mut Report,
) {
    rep.eval();
    let mut buf = Vec::new();
    if let Err(e) = write(value, &mut buf) {
        rep.violation(format!("C28/write-failed/{what}"), format!("{what}: writing failed: {e}"), json!({"value": format!("{:?}", value)}));
        return
    }
    let written = buf.len();
    buf.extend_from_slice(SENTINEL);
    let mut slice: &[u8] = &buf;
    match read(&mut slice) {
        Ok(v) => {
            if &v != value {
                let a = format!("{:?}", value); let b = format!("{:?}", v);
                rep.violation(format!("C28/value-differs/{what}"), format!("{what}: decoded value differs from the written one: wrote {} read {}",
                    &a[..a.len().min(400)], &b[..b.len().min(400)]), json!({"record": what, "hex": crate::pgen::hex(&buf[..written.min(400)])}));
            }
            if slice != SENTINEL {
                rep.violation(format!("C28/consumed-bytes/{what}"), format!("{what}: reader consumed {} bytes, {} were written", buf.len() - slice.len(), written),
                    json!({"record": what, "hex": crate::pgen::hex(&buf[..written.min(400)])}));
            }
        }
        Err(e) => rep.violation(format!("C28/read-failed/{what}"), format!("{what}: reading back failed: {e}"), json!({"record": what, "hex": crate::pgen::hex(&buf[..written.min(400)])})),
    }
    rep.class(format!("{what}|{class}"));
}

/// A reader that hands out at most `chunk` bytes per `read` call, as a file or buffered reader may at any point.
struct ChunkReader<'a> { data: &'a [u8], pos: usize, chunk: usize }

impl<'a> std::io::Read for ChunkReader<'a> {
    fn read(&mut self, buf: &mut [u8]) -> std::io::Result<usize> {
        let n = buf.len().min(self.chunk).min(self.data.len() - self.pos);
        buf[..n].copy_from_slice(&self.data[self.pos..self.pos + n]);
        self.pos += n;
        Ok(n)
    }
}

/// Reads the record back through readers that return short reads.
fn roundtrip_short_reads<T: PartialEq + std::fmt::Debug>(
    what: &str, value: &T,
    write: impl Fn(&T, &mut Vec<u8>) -> std::io::Result<()>,
    read: impl Fn(&mut ChunkReader) -> Result<T, String>,
    rep: &mut Report,
) {
    let mut buf = Vec::new();
    if write(value, &mut buf).is_err() { return }
    let written = buf.len();
    buf.extend_from_slice(SENTINEL);
    for chunk in [1usize, 7, 31] {
        rep.eval();
        let mut r = ChunkReader { data: &buf, pos: 0, chunk };
        match read(&mut r) {
            Ok(v) => {
                if &v != value { rep.violation(format!("C28/value-differs/{what}/short-reads"), format!("{what}: decoded value differs from the written one when the reader returns at most {chunk} bytes per call"), json!({"record": what, "chunk": chunk})); }
                if r.pos != written { rep.violation(format!("C28/consumed-bytes/{what}/short-reads"), format!("{what}: reader consumed {} bytes, {} were written (reads of at most {chunk} bytes)", r.pos, written), json!({"record": what, "chunk": chunk})); }
            }
            Err(e) => rep.violation(format!("C28/read-failed/{what}/short-reads"), format!("{what}: reading back failed when the reader returns at most {chunk} bytes per call: {e}"), json!({"record": what, "chunk": chunk})),
        }
        rep.class(format!("{what}|short-reads-{chunk}"));
    }
}

fn run_c28(ctx: &mut Ctx, rep: &mut Report) {
    let mut rng = ctx.rng("c28");
    let n = ctx.tier.pick(1500u64, 60_000);
    // Collections and byte strings at and around the sizes where an encoder or decoder could switch strategy
    // (powers of two up to 2^17, the 65536 pre-allocation bound of the map decoder).
    let big_sizes = [255usize, 256, 257, 4095, 4097, 65_535, 65_536, 65_537, 70_001, 131_072, 131_073, 200_003];
    for (k, size) in big_sizes.iter().enumerate() {
        if k % ctx.shards != ctx.shard % big_sizes.len().min(ctx.shards) && !(ctx.shards > big_sizes.len() && ctx.shard % big_sizes.len() == k) { continue }
        let mut rs = gen_state(&mut rng);
        rs.delta_state.clear();
        let base = rng.u64() >> 1;
        for j in 0..*size as u64 { rs.delta_state.insert(base.wrapping_add(j), rrdp::Hash::from_data(&j.to_be_bytes())); }
        roundtrip("RepositoryState", format!("deltas={size}"), &rs, |v, w| v.verif_compose(w), |r| RepositoryState::verif_parse(r).map_err(|e| e.to_string()), rep);
        let mut o = gen_object(&mut rng);
        o.content = Bytes::from(rng.bytes(*size));
        roundtrip("StoredObject", format!("len={size}"), &o, |v, w| v.write(w),
            |r| StoredObject::read(r).map_err(|e| e.to_string()).and_then(|x| x.ok_or("EOF instead of object".to_string())), rep);
        rep.count("large_collection_roundtrips", 2);
    }
    for i in 0..n {
        if i % 64 == 0 && !ctx.time_left() { rep.note("time budget reached"); break }
        // stored point header (time stamped by the constructor)
        let h = StoredPointHeader::new(gen_rsync(&mut rng), if rng.bool() { Some(gen_https(&mut rng)) } else { None });
        roundtrip("StoredPointHeader", format!("notify{}", i % 2), &h, |v, w| v.write(w), |r| StoredPointHeader::read(r).map_err(|e| e.to_string()), rep);
        let m = gen_manifest(&mut rng);
        let mclass = format!("mft{}crl{}", m.manifest.len().min(2), m.crl.len().min(2));
        roundtrip("StoredManifest", mclass, &m, |v, w| v.write(w), |r| StoredManifest::read(r).map_err(|e| e.to_string()), rep);
        let o = gen_object(&mut rng);
        let oclass = format!("hash{}len{}", o.hash.is_some() as u8, o.content.len().min(2));
        roundtrip("StoredObject", oclass, &o, |v, w| v.write(w),
            |r| StoredObject::read(r).map_err(|e| e.to_string()).and_then(|x| x.ok_or("EOF instead of object".to_string())), rep);
        let st = StoredStatus::new(gen_time(&mut rng));
        {
            rep.eval();
            let mut buf = Vec::new();
            st.write(&mut buf).unwrap();
            let w = buf.len(); buf.extend_from_slice(SENTINEL);
            let mut s: &[u8] = &buf;
            match StoredStatus::read(&mut s) {
                Ok(v) => {
                    if v.last_update != st.last_update { rep.violation("C28/value-differs/StoredStatus", format!("wrote {:?} read {:?}", st.last_update, v.last_update), json!({})); }
                    if s != SENTINEL { rep.violation("C28/consumed-bytes/StoredStatus", format!("consumed {} of {}", buf.len() - s.len(), w), json!({})); }
                }
                Err(e) => rep.violation("C28/read-failed/StoredStatus", e.to_string(), json!({})),
            }
            rep.class("StoredStatus|any");
        }
        if i % 8 == 0 {
            roundtrip_short_reads("StoredPointHeader", &h, |v, w| v.write(w), |r| StoredPointHeader::read(r).map_err(|e| e.to_string()), rep);
            roundtrip_short_reads("StoredManifest", &m, |v, w| v.write(w), |r| StoredManifest::read(r).map_err(|e| e.to_string()), rep);
            roundtrip_short_reads("StoredObject", &o, |v, w| v.write(w), |r| StoredObject::read(r).map_err(|e| e.to_string()).and_then(|x| x.ok_or("EOF instead of object".to_string())), rep);
        }
        let rs = gen_state(&mut rng);
        if i % 8 == 0 { roundtrip_short_reads("RepositoryState", &rs, |v, w| v.verif_compose(w), |r| RepositoryState::verif_parse(r).map_err(|e| e.to_string()), rep); }
        let sclass = format!("etag{}lm{}deltas{}", match &rs.etag { None => 0, Some(e) if e.is_empty() => 1, _ => 2 }, rs.last_modified_ts.is_some() as u8, rs.delta_state.len().min(3));
        roundtrip("RepositoryState", sclass, &rs, |v, w| v.verif_compose(w), |r| RepositoryState::verif_parse(r).map_err(|e| e.to_string()), rep);
        // through a real archive file
        if i % 16 == 0 {
            rep.eval();
            let path = std::sync::Arc::new(ctx.scratch.join(format!("c28-{}.bin", i)));
            let _ = std::fs::remove_file(path.as_ref());
            let res = (|| -> Result<(), String> {
                let mut a = RrdpArchive::create(path.clone()).map_err(|_| "create")?;
                a.publish_state(&rs).map_err(|_| "publish_state")?;
                drop(a);
                let a = RrdpArchive::open(path.clone()).map_err(|_| "open")?;
                let back = a.load_state().map_err(|_| "load_state")?;
                if back != rs { return Err("state read from archive differs".into()) }
                drop(a);
                let rs2 = gen_state(&mut rng);
                let mut a = RrdpArchive::try_open(path.clone()).map_err(|_| "try_open")?.ok_or("archive vanished")?;
                a.update_state(&rs2).map_err(|_| "update_state")?;
                drop(a);
                let a = RrdpArchive::open(path.clone()).map_err(|_| "open2")?;
                if a.load_state().map_err(|_| "load_state2")? != rs2 { return Err("updated state read from archive differs".into()) }
                Ok(())
            })();
            if let Err(e) = res { rep.violation("C28/archive-state-roundtrip", format!("RRDP state through archive file: {e}"), json!({"state": format!("{:?}", rs)})); }
            let _ = std::fs::remove_file(path.as_ref());
            rep.class("RepositoryState|via-archive-file");
        }
        if rep.samples.is_empty() {
            rep.sample(json!({"manifest_uri": m.ca_repository.to_string(), "crl_uri": m.crl_uri.to_string(), "not_after": m.not_after.timestamp(),
                "rpki_notify": rs.rpki_notify.to_string(), "delta_state_entries": rs.delta_state.len()}));
        }
    }
}

//============ C26 ===========================================================

pub const C26: Check = Check {
    id: "C26",
    level: "exploration",
    rule: "operation sequences (1..200 ops: publish / update / delete / fetch / fetch_if with passing and failing metadata \
           checks, reopen) on file-backed archives over a 40-name universe that includes groups of names found (by \
           computing the archive's own keyed hash) to collide in one bucket, with data sizes around 256-byte page \
           multiples and around the free-space split threshold. Sequential model = map name -> (meta tag, data). After \
           every operation: result equals the model's, objects() equals the model, verify() is Ok, and an independent \
           tiling monitor parses the file (index, bucket chains, empty chain) and checks that objects and free space tile \
           [index end, file size) without gap or overlap. distinct = (op, result class, space-reuse class) triples",
    assumptions: &["little-endian 64-bit layout as written by this build (the magic cookie encodes it)"],
    shards: |_| 16,
    watchdog: |t| Duration::from_secs(t.pick(300, 3600)),
    budget: |t| Duration::from_secs(t.pick(25, 300)),
    run: run_c26,
    crash_is_violation: false,
    finish: None,
};

#[derive(Clone, Copy, Debug, PartialEq, Eq)]
pub struct TagMeta(pub [u8; 4]);

impl ObjectMeta for TagMeta {
    const SIZE: usize = 4;
    type ConsistencyError = ();
    fn write(&self, write: &mut StorageWrite) -> Result<(), ArchiveError> { write.write(&self.0) }
    fn read(read: &mut StorageRead) -> Result<Self, ArchiveError> { Ok(TagMeta(read.read_array()?)) }
}

const INDEX_START: u64 = 6 + 24;
const BUCKETS: u64 = 1024;
const INDEX_END: u64 = INDEX_START + (BUCKETS + 1) * 8;
const HEADER: u64 = 33;

fn rd64(d: &[u8], pos: u64) -> Option<u64> {
    let p = pos as usize;
    Some(u64::from_ne_bytes(d.get(p..p + 8)?.try_into().ok()?))
}

/// Independent layout check. Returns (objects, empties) or a description of
/// what is wrong.
pub fn tiling(data: &[u8]) -> Result<(usize, usize), String> {
    if data.len() < INDEX_END as usize { return Err("file shorter than header + index".into()) }
    let mut segs: Vec<(u64, u64, bool)> = Vec::new();
    let mut walk = |mut pos: u64, empty: bool, segs: &mut Vec<(u64, u64, bool)>| -> Result<(), String> {
        let mut steps = 0;
        while pos != 0 {
            steps += 1;
            if steps > 1_000_000 { return Err("chain longer than a million entries (cycle)".into()) }
            let size = rd64(data, pos).ok_or(format!("header at {pos} outside file"))?;
            let next = rd64(data, pos + 8).ok_or("next outside file")?;
            let is_empty = *data.get(pos as usize + 16).ok_or("flag outside file")?;
            if (is_empty == 1) != empty { return Err(format!("object at {pos}: empty flag {is_empty} in {} chain", if empty { "empty" } else { "bucket" })) }
            let name_len = rd64(data, pos + 17).ok_or("name_len outside")?;
            let data_len = rd64(data, pos + 25).ok_or("data_len outside")?;
            if !empty && HEADER + name_len + 4 + data_len > size { return Err(format!("object at {pos}: content larger than its size")) }
            if size < HEADER { return Err(format!("object at {pos}: size {size} smaller than a header")) }
            segs.push((pos, size, empty));
            pos = next;
        }
        Ok(())
    };
    for b in 0..BUCKETS { walk(rd64(data, INDEX_START + b * 8).unwrap(), false, &mut segs)?; }
    walk(rd64(data, INDEX_START + BUCKETS * 8).unwrap(), true, &mut segs)?;
    segs.sort();
    let mut at = INDEX_END;
    for (pos, size, _) in &segs {
        if *pos != at { return Err(format!("gap or overlap: expected an object at {at}, next one starts at {pos}")) }
        at = pos + size;
    }
    if at != data.len() as u64 { return Err(format!("objects end at {at} but the file has {} bytes", data.len())) }
    // Two adjacent empty objects are legal? The archive merges with the *following* empty only; not judged.
    Ok((segs.iter().filter(|s| !s.2).count(), segs.iter().filter(|s| s.2).count()))
}

fn bucket_of(key: &[u8], name: &[u8]) -> u64 {
    let mut k = [0u8; 16]; k.copy_from_slice(key);
    let mut h = SipHasher24::new_with_key(&k);
    h.write(name);
    h.finish() % BUCKETS
}

fn size_for(rng: &mut Rng, name_len: usize) -> usize {
    // total = 33 + name + 4 + data; aim at page multiples +-1 and split thresholds
    let pages = 1 + rng.usize(4);
    let target = pages * 256;
    let base = 33 + name_len + 4;
    let delta: i64 = match rng.usize(9) { 0 => -1, 1 => 0, 2 => 1, 3 => -33, 4 => -34, 5 => -32, 6 => -(rng.usize(200) as i64), 7 => -255, _ => -128 };
    let total = (target as i64 + delta).max(base as i64);
    (total as usize).saturating_sub(base)
}

fn run_c26(ctx: &mut Ctx, rep: &mut Report) {
    let mut rng = ctx.rng("c26");
    let seqs = ctx.tier.pick(60u64, 3000);
    for seq in 0..seqs {
        if !ctx.time_left() { rep.note("time budget reached"); break }
        let path = ctx.scratch.join(format!("c26-{seq}.bin"));
        let _ = std::fs::remove_file(&path);
        let mut archive: Archive<TagMeta> = match Archive::create(&path) { Ok(a) => a, Err(e) => { rep.inconclusive(format!("create: {e}")); return } };
        let header = std::fs::read(&path).unwrap();
        let key = header[6..22].to_vec();
        // name universe with colliding groups
        let mut names: Vec<Vec<u8>> = (0..16).map(|i| format!("rsync://h/m/obj{i}.roa").into_bytes()).collect();
        names.push(b"x".to_vec()); names.push(vec![b'n'; 300]);
        let mut by_bucket: BTreeMap<u64, Vec<Vec<u8>>> = BTreeMap::new();
        let mut i = 0u32;
        let mut groups = 0;
        while groups < 4 && i < 20000 {
            let n = format!("c{i}").into_bytes();
            let b = bucket_of(&key, &n);
            let e = by_bucket.entry(b).or_default();
            e.push(n);
            if e.len() == 3 { names.extend(e.iter().cloned()); groups += 1; }
            i += 1;
        }
        let mut model: BTreeMap<Vec<u8>, ([u8; 4], Vec<u8>)> = BTreeMap::new();
        let nops = 1 + rng.usize(ctx.tier.pick(120, 200));
        let mut trace: Vec<String> = Vec::new();
        for opi in 0..nops {
            let name = rng.pick(&names).clone();
            let tag = [rng.u64() as u8 % 4, 0, 0, opi as u8];
            let data = { let n = size_for(&mut rng, name.len()); let mut d = rng.bytes(n.min(1500)); d.resize(n, 7); d };
            let op = rng.usize(12);
            let before_len = std::fs::metadata(&path).map(|m| m.len()).unwrap_or(0);
            rep.eval();
            let (opname, outcome): (&str, Result<String, String>) = match op {
                0..=3 => ("publish", {
                    let r = archive.publish(&name, &TagMeta(tag), &data);
                    match (&r, model.contains_key(&name)) {
                        (Err(PublishError::AlreadyExists), true) => Ok("exists".into()),
                        (Ok(()), false) => { model.insert(name.clone(), (tag, data.clone())); Ok("ok".into()) }
                        (r, has) => Err(format!("publish returned {:?}, model has name: {has}", r.as_ref().map_err(|e| format!("{e:?}")))),
                    }
                }),
                4 | 5 | 6 => ("update", {
                    let fail_check = rng.chance(1, 4);
                    let expect_tag = model.get(&name).map(|m| m.0);
                    let mut seen = None;
                    let r = archive.update(&name, &TagMeta(tag), &data, |m| { seen = Some(m.0); if fail_check { Err(()) } else { Ok(()) } });
                    match (&r, model.contains_key(&name)) {
                        (Err(AccessError::NotFound), false) => Ok("notfound".into()),
                        (Err(AccessError::Inconsistent(())), true) if fail_check => {
                            if seen != expect_tag { Err(format!("check closure saw meta {:?}, model {:?}", seen, expect_tag)) } else { Ok("refused".into()) }
                        }
                        (Ok(()), true) if !fail_check => {
                            if seen != expect_tag { Err(format!("check closure saw meta {:?}, model {:?}", seen, expect_tag)) }
                            else { model.insert(name.clone(), (tag, data.clone())); Ok("ok".into()) }
                        }
                        (r, has) => Err(format!("update returned {:?}, model has name: {has}, check fails: {fail_check}", r.as_ref().map_err(|e| format!("{e:?}")))),
                    }
                }),
                7 | 8 => ("delete", {
                    let fail_check = rng.chance(1, 4);
                    let r = archive.delete(&name, |_| if fail_check { Err(()) } else { Ok(()) });
                    match (&r, model.contains_key(&name)) {
                        (Err(AccessError::NotFound), false) => Ok("notfound".into()),
                        (Err(AccessError::Inconsistent(())), true) if fail_check => Ok("refused".into()),
                        (Ok(()), true) if !fail_check => { model.remove(&name); Ok("ok".into()) }
                        (r, has) => Err(format!("delete returned {:?}, model has name: {has}, check fails: {fail_check}", r.as_ref().map_err(|e| format!("{e:?}")))),
                    }
                }),
                9 => ("fetch", {
                    match (archive.fetch(&name), model.get(&name)) {
                        (Err(FetchError::NotFound), None) => Ok("notfound".into()),
                        (Ok(d), Some(m)) => if d.as_ref() == m.1.as_slice() { Ok("ok".into()) } else { Err("fetch returned other data than the model holds".into()) },
                        (r, m) => Err(format!("fetch returned {:?}, model has: {}", r.map(|d| d.len()).map_err(|e| format!("{e:?}")), m.is_some())),
                    }
                }),
                10 => ("fetch_if", {
                    let fail_check = rng.bool();
                    let mut seen = None;
                    let r = archive.fetch_if(&name, |m| { seen = Some(m.0); if fail_check { Err(()) } else { Ok(()) } });
                    match (r, model.get(&name)) {
                        (Err(AccessError::NotFound), None) => Ok("notfound".into()),
                        (Err(AccessError::Inconsistent(())), Some(m)) if fail_check => if seen == Some(m.0) { Ok("refused".into()) } else { Err("fetch_if check saw wrong meta".into()) },
                        (Ok(d), Some(m)) if !fail_check => if d.as_ref() == m.1.as_slice() && seen == Some(m.0) { Ok("ok".into()) } else { Err("fetch_if returned other data/meta than the model holds".into()) },
                        (r, m) => Err(format!("fetch_if returned {:?}, model has: {}", r.map(|d| d.len()).map_err(|e| format!("{e:?}")), m.is_some())),
                    }
                }),
                _ => ("reopen", {
                    drop(archive);
                    match Archive::open(&path, true) { Ok(a) => { archive = a; Ok("ok".into()) } Err(e) => { rep.violation("C26/reopen-failed", format!("reopen failed: {e}"), json!({"trace": trace})); return } }
                }),
            };
            trace.push(format!("{opname} {} len {}", String::from_utf8_lossy(&name[..name.len().min(12)]), data.len()));
            let replay = json!({"seed": ctx.seed, "shard": ctx.shard, "sequence": seq, "trace_tail": trace.iter().rev().take(12).collect::<Vec<_>>()});
            let after_len = std::fs::metadata(&path).map(|m| m.len()).unwrap_or(0);
            let space = if after_len > before_len { "grew" } else if after_len < before_len { "shrank" } else { "same" };
            match outcome {
                Ok(cls) => rep.class(format!("{opname}|{cls}|{space}")),
                Err(e) => { rep.violation(format!("C26/map-semantics/{opname}"), e, replay.clone()); break }
            }
            // objects() == model
            match archive.objects() {
                Ok(iter) => {
                    let mut seen: BTreeMap<Vec<u8>, ([u8; 4], Vec<u8>)> = BTreeMap::new();
                    let mut bad = None;
                    for item in iter {
                        match item {
                            Ok((n, m, d)) => { if seen.insert(n.to_vec(), (m.0, d.to_vec())).is_some() { bad = Some("objects() lists a name twice".to_string()) } }
                            Err(e) => bad = Some(format!("objects() item error {e}")),
                        }
                    }
                    if bad.is_none() && seen != model { bad = Some(format!("objects() yields {} entries, model has {}", seen.len(), model.len())) }
                    if let Some(b) = bad { rep.violation("C26/objects-differ-from-model", b, replay.clone()); break }
                }
                Err(e) => { rep.violation("C26/objects-failed", format!("objects(): {e}"), replay.clone()); break }
            }
            if let Err(e) = archive.verify() { rep.violation("C26/verify-failed", format!("verify(): {e}"), replay.clone()); break }
            match tiling(&std::fs::read(&path).unwrap_or_default()) {
                Ok((objs, empties)) => {
                    if objs != model.len() { rep.violation("C26/tiling-object-count", format!("file holds {objs} objects, model {}", model.len()), replay.clone()); break }
                    rep.max("max_empty_objects_in_file", empties as u64);
                }
                Err(e) => { rep.violation("C26/layout-not-tiling", e, replay.clone()); break }
            }
        }
        if rep.samples.len() < 2 { rep.sample(json!({"ops": trace.iter().take(10).collect::<Vec<_>>(), "colliding_groups": groups})); }
        drop(archive);
        let _ = std::fs::remove_file(&path);
    }
}

//============ C27 ===========================================================

pub const C27: Check = Check {
    id: "C27",
    level: "fault_enumeration",
    rule: "valid encodings of every persisted record type and small valid archive files are corrupted systematically: every \
           truncation, every single-bit flip (records up to 300 bytes), substitution of every 4- and 8-byte window by \
           {0,1,len+-1,2^31,2^32-1,2^63,2^64-1}, archive pointer rewrites (bucket entries, next links and the empty chain \
           pointing to self / an earlier object / past EOF / into the index), size and length field rewrites, plus random \
           bytes; each case runs the real decoders (StoredPointHeader/Manifest/Object/Status::read, RepositoryState parse, \
           Archive::open/verify/fetch/objects, RrdpArchive::open/load_state/load_object/objects followed by the writes an update would make: update_state, update_object with same-length data, delete_object, publish_object; Archive::update with same-length and other-length data, delete, publish) in a forked child under \
           three monitors: panic capture, abort/signal attribution, allocation monitor (largest single request must stay \
           below 16 MiB + 64 x input length) and a CPU-time budget (5 s against microseconds normal; re-run once with \
           double budget before a non-termination verdict). Allowed outcomes: value or reported error. distinct = \
           (decoder, corruption class, outcome) triples",
    assumptions: &["whole-cache runs with a corrupted file are exercised by the subprocess legs (C23/C41) rather than here"],
    shards: |_| 16,
    watchdog: |t| Duration::from_secs(t.pick(600, 3600)),
    budget: |t| Duration::from_secs(t.pick(40, 300)),
    run: run_c27,
    crash_is_violation: true,
    finish: None,
};

#[derive(Serialize, Deserialize, Clone, Debug)]
struct Outcome { ok: bool, panic: Option<String>, max_alloc: usize }

#[derive(Clone)]
struct Case { decoder: &'static str, class: &'static str, data: Vec<u8>, detail: String }

fn decode_record(decoder: &str, data: &[u8]) -> bool {
    let mut s: &[u8] = data;
    match decoder {
        "StoredPointHeader::read" => StoredPointHeader::read(&mut s).is_ok(),
        "StoredManifest::read" => StoredManifest::read(&mut s).is_ok(),
        "StoredObject::read" => { let mut ok = true; for _ in 0..4 { match StoredObject::read(&mut s) { Ok(Some(_)) => {} Ok(None) => break, Err(_) => { ok = false; break } } } ok }
        "StoredStatus::read" => StoredStatus::read(&mut s).is_ok(),
        "RepositoryState::parse" => RepositoryState::verif_parse(&mut s).is_ok(),
        _ => false,
    }
}

fn decode_archive(decoder: &str, path: &std::path::Path, names: &[Vec<u8>]) -> bool {
    match decoder {
        "Archive" => {
            let a: Archive<TagMeta> = match Archive::open(path, false) { Ok(a) => a, Err(_) => return false };
            let mut ok = a.verify().is_ok();
            for n in names { if a.fetch(n).is_err() { ok = false } let _ = a.fetch_if(n, |_| Ok(())); }
            match a.objects() { Ok(it) => { for (i, item) in it.enumerate() { if item.is_err() || i > 100_000 { ok = false; break } } } Err(_) => ok = false }
            ok
        }
        "Archive(writable)" => {
            let mut a: Archive<TagMeta> = match Archive::open(path, true) { Ok(a) => a, Err(_) => return false };
            let mut ok = true;
            for (i, n) in names.iter().enumerate() {
                match i % 4 {
                    // rewrite with data of exactly the stored length (the in-place path) ...
                    3 => { let len = a.fetch(n).map(|d| d.len()).unwrap_or(0); if a.update(n, &TagMeta([7; 4]), &vec![0x55u8; len], |_| Ok(())).is_err() { ok = false } }
                    // ... and with data of another length
                    0 => if a.update(n, &TagMeta([9; 4]), b"new-data-for-update", |_| Ok(())).is_err() { ok = false },
                    1 => if a.delete(n, |_| Ok(())).is_err() { ok = false },
                    _ => if a.publish(b"fresh-name", &TagMeta([1; 4]), &[5u8; 700]).is_err() { ok = false },
                }
            }
            ok
        }
        _ => {
            // RrdpArchive: give it its own copy since corrupt archives get deleted.
            let p = std::sync::Arc::new(path.to_path_buf());
            let a = match RrdpArchive::open(p.clone()) { Ok(a) => a, Err(_) => return false };
            let mut ok = a.load_state().is_ok();
            for n in names { if let Ok(u) = uri::Rsync::from_bytes(Bytes::from(n.clone())) { if a.load_object(&u).is_err() { ok = false } } }
            match a.objects() { Ok(it) => { for (i, item) in it.enumerate() { if item.is_err() || i > 100_000 { ok = false; break } } } Err(_) => ok = false }
            // what the next update does with such an archive: rewrite the state record (304 / delta path) and rewrite,
            // add and delete objects as a delta would
            let state = a.load_state().ok();
            drop(a);
            if let Ok(Some(mut w)) = RrdpArchive::try_open(p.clone()) {
                if let Some(st) = state { if w.update_state(&st).is_err() { ok = false } }
                for (i, n) in names.iter().enumerate() {
                    let Ok(u) = uri::Rsync::from_bytes(Bytes::from(n.clone())) else { continue };
                    let old = w.load_object(&u).ok().flatten();
                    match (i % 3, old) {
                        (0, Some(old)) => { if w.update_object(&u, rpki::rrdp::Hash::from_data(&old), &vec![0x33u8; old.len()]).is_err() { ok = false } }
                        (1, Some(old)) => { if w.delete_object(&u, rpki::rrdp::Hash::from_data(&old)).is_err() { ok = false } }
                        _ => { if w.publish_object(&u, b"replacement content").is_err() { ok = false } }
                    }
                }
            }
            ok
        }
    }
}

fn run_batch(cases: &[Case], scratch: &std::path::Path, names: &[Vec<u8>]) -> Vec<Outcome> {
    let mut out = Vec::new();
    for c in cases {
        let r = std::panic::catch_unwind(std::panic::AssertUnwindSafe(|| {
            if c.decoder.starts_with("Archive") || c.decoder == "RrdpArchive" {
                let p = scratch.join(format!("case-{}.bin", std::process::id()));
                std::fs::write(&p, &c.data).unwrap();
                crate::alloc::arm();
                let ok = decode_archive(c.decoder, &p, names);
                let (m, _) = crate::alloc::disarm();
                let _ = std::fs::remove_file(&p);
                (ok, m)
            } else {
                crate::alloc::arm();
                let ok = decode_record(c.decoder, &c.data);
                let (m, _) = crate::alloc::disarm();
                (ok, m)
            }
        }));
        match r {
            Ok((ok, m)) => out.push(Outcome { ok, panic: None, max_alloc: m }),
            Err(e) => {
                let _ = crate::alloc::disarm();
                let msg = if let Some(s) = e.downcast_ref::<String>() { s.clone() } else if let Some(s) = e.downcast_ref::<&str>() { s.to_string() } else { "panic".into() };
                out.push(Outcome { ok: false, panic: Some(msg), max_alloc: 0 });
            }
        }
    }
    out
}

fn specials(len: usize) -> Vec<u64> {
    vec![0, 1, len as u64 + 1, (len as u64).saturating_sub(1), 1 << 31, u32::MAX as u64, 1 << 63, u64::MAX, 1 << 40, 1 << 34]
}

fn mutate_record(decoder: &'static str, valid: &[u8], rng: &mut Rng, small: bool, out: &mut Vec<Case>) {
    let n = valid.len();
    let step = if small { 1 } else { (n / 64).max(1) };
    let mut i = 0;
    while i < n { out.push(Case { decoder, class: "truncation", data: valid[..i].to_vec(), detail: format!("truncate at {i}") }); i += step; }
    if small && n <= 300 {
        for byte in 0..n { for bit in 0..8 { let mut d = valid.to_vec(); d[byte] ^= 1 << bit; out.push(Case { decoder, class: "bit-flip", data: d, detail: format!("flip {byte}.{bit}") }); } }
    }
    let wstep = if n <= 400 { 1 } else { (n / 200).max(1) };
    let mut off = 0;
    while off + 4 <= n {
        for sp in specials(n) {
            if off + 8 <= n { let mut d = valid.to_vec(); d[off..off + 8].copy_from_slice(&sp.to_be_bytes()); out.push(Case { decoder, class: "len-subst-u64", data: d, detail: format!("u64 {sp:#x} at {off}") }); }
            if sp <= u32::MAX as u64 { let mut d = valid.to_vec(); d[off..off + 4].copy_from_slice(&(sp as u32).to_be_bytes()); out.push(Case { decoder, class: "len-subst-u32", data: d, detail: format!("u32 {sp:#x} at {off}") }); }
        }
        off += wstep;
    }
    for _ in 0..20 { let l = rng.usize(200); out.push(Case { decoder, class: "random-bytes", data: rng.bytes(l), detail: "random".into() }); }
    out.push(Case { decoder, class: "valid", data: valid.to_vec(), detail: "unchanged".into() });
}

fn build_archive(scratch: &std::path::Path, rng: &mut Rng, rrdp: bool) -> (Vec<u8>, Vec<Vec<u8>>) {
    let path = scratch.join(format!("c27-src-{}.bin", rng.u32()));
    let _ = std::fs::remove_file(&path);
    let mut names = Vec::new();
    if rrdp {
        let mut a = RrdpArchive::create(std::sync::Arc::new(path.clone())).unwrap();
        for i in 0..5 {
            let u = uri::Rsync::from_str(&format!("rsync://h.example/m/o{i}.roa")).unwrap();
            a.publish_object(&u, &rng.bytes_span(100, 600)).unwrap();
            names.push(u.as_slice().to_vec());
        }
        a.publish_state(&gen_state(rng)).unwrap();
        let u = uri::Rsync::from_str("rsync://h.example/m/o1.roa").unwrap();
        let _ = a.delete_object(&u, rrdp::Hash::from_data(b"x"));
    } else {
        let mut a: Archive<TagMeta> = Archive::create(&path).unwrap();
        for i in 0..6 { let n = format!("name{i}").into_bytes(); a.publish(&n, &TagMeta([i as u8; 4]), &rng.bytes_span(50, 700)).unwrap(); names.push(n); }
        a.delete(b"name1", |_| Ok(())).unwrap();
        a.delete(b"name3", |_| Ok(())).unwrap();
        a.publish(b"late", &TagMeta([7; 4]), &rng.bytes(20)).unwrap(); names.push(b"late".to_vec());
    }
    names.push(b"absent-name".to_vec());
    let data = std::fs::read(&path).unwrap();
    let _ = std::fs::remove_file(&path);
    (data, names)
}

fn mutate_archive(decoder: &'static str, valid: &[u8], rng: &mut Rng, out: &mut Vec<Case>) {
    let n = valid.len() as u64;
    // positions of objects via the independent walker
    let mut positions: Vec<u64> = Vec::new();
    let mut used_buckets: Vec<u64> = Vec::new();
    for b in 0..=BUCKETS {
        let mut pos = rd64(valid, INDEX_START + b * 8).unwrap_or(0);
        if pos != 0 { used_buckets.push(b) }
        let mut guard = 0;
        while pos != 0 && guard < 1000 { positions.push(pos); pos = rd64(valid, pos + 8).unwrap_or(0); guard += 1; }
    }
    positions.sort(); positions.dedup();
    let targets = |p: u64| -> Vec<u64> { let mut t = vec![p, INDEX_START, INDEX_END, 1, n, n + 1, n - 1, n + (1 << 40), u64::MAX, 6]; t.extend(positions.iter().cloned()); t };
    let put = |d: &mut Vec<u8>, pos: u64, v: u64| { let p = pos as usize; if p + 8 <= d.len() { d[p..p + 8].copy_from_slice(&v.to_ne_bytes()); } };
    for b in &used_buckets {
        let ipos = INDEX_START + b * 8;
        for t in targets(0) { let mut d = valid.to_vec(); put(&mut d, ipos, t); out.push(Case { decoder, class: if *b == BUCKETS { "empty-index-pointer" } else { "bucket-pointer" }, data: d, detail: format!("bucket {b} -> {t}") }); }
    }
    // an unused bucket pointing somewhere
    for t in targets(0).into_iter().take(6) { let mut d = valid.to_vec(); put(&mut d, INDEX_START + 8 * (rng.below(BUCKETS)), t); out.push(Case { decoder, class: "bucket-pointer", data: d, detail: format!("random bucket -> {t}") }); }
    for p in &positions {
        for t in targets(*p) { let mut d = valid.to_vec(); put(&mut d, p + 8, t); out.push(Case { decoder, class: "next-pointer", data: d, detail: format!("next of {p} -> {t}") }); }
        for s in [0u64, 1, 32, 33, 255, 256, n, n * 2, 1 << 40, 1 << 63, u64::MAX] {
            let mut d = valid.to_vec(); put(&mut d, *p, s); out.push(Case { decoder, class: "size-field", data: d, detail: format!("size of {p} = {s}") });
            let mut d = valid.to_vec(); put(&mut d, p + 17, s); out.push(Case { decoder, class: "name-len-field", data: d, detail: format!("name_len of {p} = {s}") });
            let mut d = valid.to_vec(); put(&mut d, p + 25, s); out.push(Case { decoder, class: "data-len-field", data: d, detail: format!("data_len of {p} = {s}") });
        }
        for f in [0u8, 1, 2, 255] { let mut d = valid.to_vec(); d[*p as usize + 16] = f; out.push(Case { decoder, class: "empty-flag", data: d, detail: format!("flag of {p} = {f}") }); }
    }
    // bucket count / hash key
    for s in [0u64, 1, 1023, 1025, 1 << 20, 1 << 40, u64::MAX] { let mut d = valid.to_vec(); put(&mut d, 22, s); out.push(Case { decoder, class: "bucket-count", data: d, detail: format!("bucket_count = {s}") }); }
    let mut cut = 0usize;
    while cut < valid.len() { out.push(Case { decoder, class: "truncation", data: valid[..cut].to_vec(), detail: format!("truncate at {cut}") }); cut += if cut < 64 { 1 } else { (valid.len() / 40).max(1) }; }
    for _ in 0..10 { let mut d = valid.to_vec(); for _ in 0..(1 + rng.usize(8)) { let i = rng.usize(d.len()); d[i] = rng.u64() as u8; } out.push(Case { decoder, class: "random-bytes", data: d, detail: "random byte edits".into() }); }
    out.push(Case { decoder, class: "valid", data: valid.to_vec(), detail: "unchanged".into() });
}

fn run_c27(ctx: &mut Ctx, rep: &mut Report) {
    let mut rng = ctx.rng("c27");
    let mut cases: Vec<Case> = Vec::new();
    let rounds = ctx.tier.pick(1usize, 8);
    let mut names: Vec<Vec<u8>> = Vec::new();
    for round in 0..rounds {
        // Records: each shard takes record types by index.
        let kinds: [&'static str; 5] = ["StoredPointHeader::read", "StoredManifest::read", "StoredObject::read", "StoredStatus::read", "RepositoryState::parse"];
        for (ki, k) in kinds.iter().enumerate() {
            if (ki + round + ctx.shard) % 4 != 0 && ctx.tier == crate::core::Tier::Quick { continue }
            let mut buf = Vec::new();
            let small;
            match *k {
                "StoredPointHeader::read" => { StoredPointHeader::new(gen_rsync(&mut rng), Some(gen_https(&mut rng))).write(&mut buf).unwrap(); small = true }
                "StoredManifest::read" => { let mut m = gen_manifest(&mut rng); m.manifest = Bytes::from(rng.bytes(40)); m.crl = Bytes::from(rng.bytes(30)); m.write(&mut buf).unwrap(); small = buf.len() <= 300 }
                "StoredObject::read" => { let mut o = gen_object(&mut rng); o.content = Bytes::from(rng.bytes(50)); o.write(&mut buf).unwrap(); gen_object(&mut rng).write(&mut buf).ok(); small = false }
                "StoredStatus::read" => { StoredStatus::new(gen_time(&mut rng)).write(&mut buf).unwrap(); small = true }
                _ => { let mut s = gen_state(&mut rng); if s.delta_state.len() > 6 { s.delta_state = s.delta_state.into_iter().take(4).collect() } s.verif_compose(&mut buf).unwrap(); small = buf.len() <= 300 }
            }
            mutate_record(k, &buf, &mut rng, small, &mut cases);
        }
        // Archives.
        let which = (ctx.shard + round) % 3;
        let decoder: &'static str = ["Archive", "Archive(writable)", "RrdpArchive"][which];
        let (data, n) = build_archive(&ctx.scratch, &mut rng, decoder == "RrdpArchive");
        names = n;
        let mut ac = Vec::new();
        mutate_archive(decoder, &data, &mut rng, &mut ac);
        // archives are the expensive cases: sample in quick tier
        if ctx.tier == crate::core::Tier::Quick { rng.shuffle(&mut ac); ac.truncate(700); }
        cases.extend(ac);
    }
    rep.count("cases_generated", cases.len() as u64);
    // Records and archive cases of this shard use the same names list (last archive built);
    // archive cases of earlier rounds only lose some present-name probes.
    let cap = |len: usize| 16 * 1024 * 1024 + 64 * len;
    let cpu = Duration::from_secs(5);
    let mut idx = 0;
    while idx < cases.len() {
        if !ctx.time_left() { rep.note(format!("time budget reached after {idx} of {} cases", cases.len())); break }
        let end = (idx + 48).min(cases.len());
        let batch: Vec<Case> = cases[idx..end].to_vec();
        ctx.begin_case(&json!({"batch_start": idx, "decoder": batch[0].decoder}));
        let scratch = ctx.scratch.clone();
        let names2 = names.clone();
        let b2 = batch.clone();
        let res = isolated(cpu * 4, Duration::from_secs(120), move || run_batch(&b2, &scratch, &names2));
        let judge = |c: &Case, o: &Outcome, rep: &mut Report| {
            rep.eval();
            let replay = json!({"decoder": c.decoder, "class": c.class, "detail": c.detail, "input_len": c.data.len(),
                "input_hex_head": crate::pgen::hex(&c.data[..c.data.len().min(160)])});
            if let Some(p) = &o.panic {
                let msg: String = p.chars().filter(|ch| !ch.is_ascii_digit()).take(60).collect();
                rep.violation(format!("C27/panic/{}/{}", c.decoder, msg.trim()), format!("{} panicked on {} ({}): {p}", c.decoder, c.class, c.detail), replay.clone());
            }
            if o.max_alloc > cap(c.data.len()) {
                rep.violation(format!("C27/alloc/{}/{}", c.decoder, c.class), format!(
                    "{} requested a single allocation of {} bytes for a {}-byte input ({}: {})", c.decoder, o.max_alloc, c.data.len(), c.class, c.detail), replay);
            }
            rep.max("max_single_allocation_seen", o.max_alloc as u64);
            rep.class(format!("{}|{}|{}", c.decoder, c.class, if o.panic.is_some() { "panic" } else if o.ok { "value" } else { "error" }));
        };
        match res {
            Ok(outs) if outs.len() == batch.len() => { for (c, o) in batch.iter().zip(outs.iter()) { judge(c, o, rep); } }
            _ => {
                // Re-run one by one to attribute.
                for c in &batch {
                    let scratch = ctx.scratch.clone();
                    let names2 = names.clone();
                    let one = vec![c.clone()];
                    ctx.begin_case(&json!({"decoder": c.decoder, "class": c.class, "detail": c.detail}));
                    let mut r = isolated(cpu, Duration::from_secs(60), { let one = one.clone(); let s = scratch.clone(); let n = names2.clone(); move || run_batch(&one, &s, &n) });
                    if let Err(IsoError::CpuBudget(_)) = r {
                        r = isolated(cpu * 2, Duration::from_secs(120), move || run_batch(&one, &scratch, &names2));
                    }
                    let replay = json!({"decoder": c.decoder, "class": c.class, "detail": c.detail, "input_len": c.data.len(),
                        "input_hex_head": crate::pgen::hex(&c.data[..c.data.len().min(160)])});
                    match r {
                        Ok(outs) if outs.len() == 1 => judge(c, &outs[0], rep),
                        Ok(_) => rep.inconclusive("child returned wrong number of outcomes"),
                        Err(IsoError::Signal(sig, txt)) => {
                            rep.eval();
                            let kind = if sig == libc::SIGABRT { "abort" } else if sig == libc::SIGSEGV { "segv" } else if sig == libc::SIGBUS { "sigbus" } else { "signal" };
                            let cause: String = txt.lines().find(|l| l.contains("memory allocation") || l.contains("capacity overflow") || l.contains("panicked")).unwrap_or("").chars().filter(|ch| !ch.is_ascii_digit()).take(50).collect();
                            rep.violation(format!("C27/{kind}/{}/{}", c.decoder, c.class), format!("{} died with signal {sig} on {} ({}): {}", c.decoder, c.class, c.detail, txt.trim()), replay);
                            rep.class(format!("{}|{}|{kind}:{}", c.decoder, c.class, cause.trim()));
                        }
                        Err(IsoError::Exit(code, txt)) => { rep.eval(); rep.violation(format!("C27/exit/{}/{}", c.decoder, c.class), format!("child exited {code}: {txt}"), replay); }
                        Err(IsoError::CpuBudget(d)) => {
                            rep.eval();
                            rep.violation(format!("C27/non-termination/{}/{}", c.decoder, c.class), format!(
                                "{} used more than {:?} of CPU time (twice) on a {}-byte input ({}: {})", c.decoder, d, c.data.len(), c.class, c.detail), replay);
                            rep.class(format!("{}|{}|cpu-budget", c.decoder, c.class));
                        }
                        Err(IsoError::WallClock) => rep.inconclusive(format!("{}: wall-clock watchdog without CPU use ({})", c.decoder, c.detail)),
                        Err(IsoError::Harness(e)) => rep.inconclusive(format!("isolation error: {e}")),
                    }
                }
            }
        }
        idx = end;
    }
    if let Some(c) = cases.first() { rep.sample(json!({"decoder": c.decoder, "class": c.class, "detail": c.detail, "input_len": c.data.len()})); }
    if let Some(c) = cases.iter().find(|c| c.class == "next-pointer") { rep.sample(json!({"decoder": c.decoder, "class": c.class, "detail": c.detail, "input_len": c.data.len()})); }
}
