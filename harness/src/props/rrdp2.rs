//! C25: RRDP updates reproduce the server state or report failure. The real
//! RRDP collector (HTTP client, notification / snapshot / delta processing,
//! archive) is driven run after run against a scripted server history
//! through the TLS-terminating fake; after every run the archive is compared
//! with the server's state.

use std::collections::BTreeMap;
use std::str::FromStr;
use std::sync::Arc;
use std::time::Duration;
use serde_json::json;
use routinator::collector::{RrdpArchive, RrdpCollector, RrdpLoadResult};
use crate::core::{Check, Ctx, Report, Rng};
use crate::net::https::FakeHttps;
use crate::net::rrdp::{DeltaFault, Faults, RrdpServer};

pub const C25: Check = Check {
    id: "C25",
    level: "exploration",
    rule: "generated server histories over a universe of 6 object URIs with uniquely tagged contents: per step the server makes 0-4 \
           updates (serial jumps), starts a new session, changes nothing (304 / same serial), shortens its delta list, re-issues its current serial with other content and adds a version, or re-serves an \
           earlier notification of the same session (stale front end), and renders its documents with 0-2 faults (HTTP errors, broken or \
           truncated XML, wrong snapshot/delta file hash, wrong session/serial inside a file, wrong object hash early or late in a \
           delta, gapped / duplicated / mutated delta list, missing ETag); a third of the sequences run with max-object-size 768 / 992 / 1536 / 3072 and objects up to 5 kB. After every step the real RRDP collector runs \
           load_repository once on the same cache. Oracle: if the result is Updated, the archive's objects (full iteration) and \
           its recorded (session, serial) must equal the state the server notified; otherwise nothing is required of the copy. \
           distinct = (server op, fault, outcome, previous outcome) classes",
    assumptions: &["servers whose delta files and snapshot disagree while all hashes are consistent are not generated (indistinguishable for any client)",
                   "a healthy step that does not end Updated is counted and makes the shard inconclusive if frequent, it is not a violation"],
    shards: |_| 16,
    watchdog: |t| Duration::from_secs(t.pick(600, 3600)),
    budget: |t| Duration::from_secs(t.pick(40, 400)),
    run: run_c25,
    crash_is_violation: true,
    finish: Some(finish_c25),
};

const HOST: &str = "h.rpki.test";

fn uri_of(i: usize) -> String { format!("rsync://{HOST}/repo/dir{}/o{i}.bin", i % 2) }

fn mutate_objects(rng: &mut Rng, objs: &BTreeMap<String, Vec<u8>>, counter: &mut u64) -> BTreeMap<String, Vec<u8>> {
    mutate_objects_sized(rng, objs, counter, false)
}

fn mutate_objects_sized(rng: &mut Rng, objs: &BTreeMap<String, Vec<u8>>, counter: &mut u64, big: bool) -> BTreeMap<String, Vec<u8>> {
    let mut new = objs.clone();
    let n = 1 + rng.usize(3);
    for _ in 0..n {
        let i = rng.usize(6);
        let u = uri_of(i);
        if new.contains_key(&u) && rng.chance(1, 3) { new.remove(&u); }
        else {
            *counter += 1;
            let mut c = format!("content#{}-of-o{i}-", *counter).into_bytes();
            let large = rng.chance(1, if big { 3 } else { 8 }); let pad = rng.usize(if large { 5000 } else { 60 });
            c.extend((0..pad).map(|k| (k % 251) as u8));
            new.insert(u, c);
        }
    }
    if new == *objs { *counter += 1; new.insert(uri_of(0), format!("content#{}-forced", *counter).into_bytes()); }
    new
}

fn pick_faults(rng: &mut Rng) -> (Faults, String) {
    let mut f = Faults::default();
    let mut names: Vec<String> = Vec::new();
    if rng.chance(2, 5) { return (f, "none".into()) }
    let delta_kinds = [DeltaFault::Status(404), DeltaFault::Status(500), DeltaFault::WrongHash, DeltaFault::BrokenXml, DeltaFault::Truncated,
        DeltaFault::WrongSession, DeltaFault::WrongSerial, DeltaFault::WrongObjectHash, DeltaFault::LateWrongObjectHash];
    let pick_snapshot = |rng: &mut Rng, f: &mut Faults, names: &mut Vec<String>| {
        match rng.usize(6) {
            0 => { f.snapshot_status = Some(*rng.pick(&[404u16, 500, 503])); names.push("snapshot-status".into()); }
            1 => { f.snapshot_wrong_hash = true; names.push("snapshot-wrong-hash".into()); }
            2 => { f.snapshot_broken_xml = true; names.push("snapshot-broken-xml".into()); }
            3 => { f.snapshot_truncated = true; names.push("snapshot-truncated".into()); }
            4 => { f.snapshot_wrong_session = true; names.push("snapshot-wrong-session".into()); }
            _ => { f.snapshot_wrong_serial = true; names.push("snapshot-wrong-serial".into()); }
        }
    };
    match rng.usize(10) {
        0 => { let c = *rng.pick(&[404u16, 500, 503, 403, 304, 304, 302, 301, 307]); f.notify_status = Some(c); names.push(if c == 304 { "notify-304-unconditionally".into() } else { "notify-status".into() }); }
        1 => { f.notify_broken_xml = true; names.push("notify-broken-xml".into()); }
        2 => pick_snapshot(rng, &mut f, &mut names),
        3..=6 => {
            let k = *rng.pick(&delta_kinds);
            let idx = rng.usize(3);
            f.delta_fault = Some((idx, k));
            names.push(format!("delta[{idx}]-{k:?}"));
            if rng.chance(1, 2) { pick_snapshot(rng, &mut f, &mut names); }
        }
        7 => { f.delta_gap = true; names.push("delta-gap".into()); if rng.chance(1, 3) { pick_snapshot(rng, &mut f, &mut names); } }
        8 => { f.delta_duplicate = true; names.push("delta-duplicate".into()); }
        _ => { f.delta_mutated = true; names.push("delta-mutated".into()); if rng.chance(1, 3) { pick_snapshot(rng, &mut f, &mut names); } }
    }
    if rng.chance(1, 6) { f.no_etag = true; names.push("no-etag".into()); }
    (f, names.join("+"))
}

fn archive_file(cache: &std::path::Path) -> Option<std::path::PathBuf> {
    let mut found = None;
    fn rec(p: &std::path::Path, found: &mut Option<std::path::PathBuf>) {
        if let Ok(rd) = std::fs::read_dir(p) { for e in rd.flatten() { let p = e.path(); if p.is_dir() { if p.file_name().map(|n| n != "tmp").unwrap_or(true) { rec(&p, found) } } else if p.extension().map(|x| x == "bin").unwrap_or(false) { *found = Some(p); } } }
    }
    rec(&cache.join("rrdp"), &mut found);
    found
}

/// Reads (session, serial, objects) of the local copy.
fn read_local(cache: &std::path::Path) -> Result<(String, u64, BTreeMap<String, Vec<u8>>), String> {
    let path = archive_file(cache).ok_or("no archive file")?;
    let a = RrdpArchive::open(Arc::new(path)).map_err(|_| "archive cannot be opened")?;
    let st = a.load_state().map_err(|_| "state cannot be loaded")?;
    let mut objs = BTreeMap::new();
    for item in a.objects().map_err(|_| "objects cannot be iterated")? {
        let (u, b) = item.map_err(|_| "object cannot be read")?;
        objs.insert(u.to_string(), b.to_vec());
    }
    Ok((st.session.to_string(), st.serial, objs))
}

fn describe_diff(local: &BTreeMap<String, Vec<u8>>, truth: &BTreeMap<String, Vec<u8>>) -> String {
    let tag = |b: &Vec<u8>| String::from_utf8_lossy(&b[..b.len().min(24)]).split('-').next().unwrap_or("").to_string();
    let mut out = Vec::new();
    for (u, b) in local { match truth.get(u) { None => out.push(format!("{} present locally ({}) but not on the server", u.rsplit('/').next().unwrap_or(""), tag(b))), Some(t) if t != b => out.push(format!("{}: local {} vs server {}", u.rsplit('/').next().unwrap_or(""), tag(b), tag(t))), _ => {} } }
    for u in truth.keys() { if !local.contains_key(u) { out.push(format!("{} missing locally", u.rsplit('/').next().unwrap_or(""))); } }
    out.join("; ")
}

fn run_c25(ctx: &mut Ctx, rep: &mut Report) {
    let mut rng = ctx.rng("c25");
    let fake = match FakeHttps::start() { Ok(f) => f, Err(e) => { rep.inconclusive(format!("fake https: {e}")); return } };
    let sequences = ctx.tier.pick(12usize, 400);
    let steps = ctx.tier.pick(14usize, 30);
    let notify = rpki::uri::Https::from_str(&format!("https://{HOST}/rrdp/notification.xml")).unwrap();
    let mut counter = 0u64;
    for seq in 0..sequences {
        if !ctx.time_left() { rep.note("time budget reached"); break }
        let dir = crate::util::scratch_sub(&ctx.scratch, "c25");
        let mut config = crate::util::base_config(&dir);
        fake.clear();
        fake.configure(&mut config);
        config.rrdp_max_delta_count = *rng.pick(&[100usize, 100, 3]);
        // an object size limit in a third of the sequences, at values where a chunked reader's cumulative position can
        // land exactly on the limit; objects above it make the update fail, they are never stored cut short
        let limit: Option<u64> = *rng.pick(&[None, None, None, None, Some(768u64), Some(1536), Some(992), Some(3072)]);
        config.max_object_size = limit;
        config.rrdp_fallback_time = Duration::from_secs(3600);
        let mut coll = match RrdpCollector::new(&config) { Ok(Some(c)) => c, _ => { rep.inconclusive("collector init failed"); return } };
        if coll.ignite().is_err() { rep.inconclusive("collector ignite failed"); return }
        let mut srv = RrdpServer::new(HOST, 0x5000 + (ctx.seed & 0xfff) * 1000 + (ctx.shard as u64) * 100 + seq as u64);
        srv.objects = mutate_objects_sized(&mut rng, &BTreeMap::new(), &mut counter, limit.is_some());
        let mut head = srv.clone();
        let mut past: Vec<RrdpServer> = Vec::new();
        let mut trace: Vec<serde_json::Value> = Vec::new();
        let mut prev_outcome = "none".to_string();
        let mut prev_faults = "none".to_string();
        let mut last_good: Option<RrdpServer> = None;
        for step in 0..steps {
            // --- server op
            // `head` is the server's true, linear history; `srv` is what its front end serves (may lag behind).
            let op = if step == 0 { "initial".to_string() }
            else if prev_outcome != "updated" && last_good.is_some() && rng.chance(1, 3) {
                // a stale front end serves exactly what the client last fetched successfully
                srv = last_good.clone().unwrap(); "revert-to-last-fetched".to_string()
            } else {
                match rng.usize(12) {
                    0..=5 | 10 => { let many = rng.chance(1, 4); let k = 1 + rng.usize(if many { 4 } else { 1 }); srv = head.clone(); if rng.chance(1, 6) { srv.list_deltas = 20; } for _ in 0..k { let n = mutate_objects_sized(&mut rng, &srv.objects, &mut counter, limit.is_some()); srv.update(n); } head = srv.clone(); format!("update-x{k}") }
                    6 => { srv = head.clone(); srv.new_session(0x9000 + counter); counter += 1; srv.objects = mutate_objects_sized(&mut rng, &srv.objects, &mut counter, limit.is_some()); head = srv.clone(); "new-session".into() }
                    7 => "no-change".into(),
                    8 => {
                        // the server re-issues its current serial with other content (the delta of that serial changes, its
                        // hash in the notification with it) and publishes one more version on top
                        let prevs: Vec<usize> = (0..past.len()).filter(|i| past[*i].session == head.session && past[*i].serial + 1 == head.serial).collect();
                        match prevs.last() {
                            None => "no-change".into(),
                            Some(i) => {
                                srv = past[*i].clone(); srv.list_deltas = 20;
                                let a = mutate_objects_sized(&mut rng, &srv.objects, &mut counter, limit.is_some()); srv.update(a);
                                let b2 = mutate_objects_sized(&mut rng, &srv.objects, &mut counter, limit.is_some()); srv.update(b2);
                                head = srv.clone();
                                "reissue-current-serial+update".into()
                            }
                        }
                    }
                    9 => { srv = head.clone(); srv.list_deltas = 1 + rng.usize(3); head = srv.clone(); "short-delta-list".into() }
                    _ => {
                        // an earlier notification of the current session is served again
                        let cands: Vec<usize> = (0..past.len()).filter(|i| past[*i].session == head.session).collect();
                        if cands.is_empty() { "no-change".into() } else { srv = past[cands[rng.usize(cands.len())]].clone(); "stale-notification".into() }
                    }
                }
            };
            let (mut faults, mut fname) = pick_faults(&mut rng);
            // a re-issued serial is only detectable through the delta list of an undisturbed notification (a list that
            // hides the re-issued delta gives a client nothing to compare): this step is rendered without faults
            if op.starts_with("reissue") { faults = Faults::default(); fname = "none".into(); }
            fake.clear();
            srv.install(&fake, &faults);
            // older delta and snapshot documents of this session stay available (plain, without faults)
            past.push(srv.clone());
            fake.take_log();
            ctx.begin_case(&json!({"seq": seq, "step": step, "op": op, "faults": fname}));
            // --- one collector run
            let run = coll.start();
            let res = run.load_repository(&notify);
            drop(run);
            rep.eval();
            let reqs: Vec<String> = fake.take_log().iter().filter(|l| l.method == "GET").map(|l| l.path.rsplit('/').take(2).collect::<Vec<_>>().into_iter().rev().collect::<Vec<_>>().join("/")).collect();
            let outcome = match &res {
                Ok(RrdpLoadResult::Updated(_)) => "updated", Ok(RrdpLoadResult::Current) => "current", Ok(RrdpLoadResult::Stale) => "stale",
                Ok(RrdpLoadResult::Unavailable) => "unavailable", Err(_) => "run-failed",
            };
            trace.push(json!({"step": step, "server_op": op, "faults": fname, "server": {"session": srv.session, "serial": srv.serial, "objects": srv.objects.len()}, "requests": reqs, "outcome": outcome}));
            let not_modified = reqs.len() == 1 && faults.notify_status.is_none();
            let how = if outcome != "updated" { "" } else if not_modified { "/via-304" } else if reqs.iter().any(|r| r.ends_with("snapshot.xml")) { "/via-snapshot" } else if reqs.iter().any(|r| r.ends_with("delta.xml")) { "/via-deltas" } else { "/via-same-serial" };
            rep.class(format!("{op}|{fname}|{outcome}{how}|prev:{prev_outcome}|limit{}", limit.is_some() as u8));
            if limit.is_some() && srv.objects.values().any(|o| o.len() as u64 > limit.unwrap()) { rep.count(&format!("steps_with_object_above_limit_{outcome}"), 1); }
            rep.count(&format!("outcome_{outcome}"), 1);
            if let Ok(RrdpLoadResult::Updated(repo)) = &res {
                drop(repo.clone());
                match read_local(&config.cache_dir) {
                    Err(e) => rep.violation("C25/updated-but-unreadable", format!("update reported successful but the local copy: {e}"), json!({"trace": trace})),
                    Ok((session, serial, objs)) => {
                        // A server that answers 304 whatever is asked notifies nothing: the version it vouches for is the
                        // one the client last fetched from it.
                        let vouched: &RrdpServer = if faults.notify_status == Some(304) { match last_good.as_ref() { Some(g) => g, None => &srv } } else { &srv };
                        let same_version = session == vouched.session && serial == vouched.serial;
                        if objs != vouched.objects || !same_version {
                            let srv = vouched;
                            let ctxt = if prev_outcome != "updated" && prev_outcome != "none" { format!("after-failed-update[{prev_faults}]") } else { "after-good-update".to_string() };
                            let sig = format!("C25/updated-but-divergent{how}/{}", if ctxt.starts_with("after-failed") { "after-failed-update" } else { "after-good-update" });
                            rep.violation(sig, format!(
                                "update reported successful ({}, {ctxt}, server op {op}, faults {fname}); local copy records session {session} serial {serial}, server notified session {} serial {}; {}",
                                how.trim_start_matches('/'), srv.session, srv.serial, describe_diff(&objs, &srv.objects)),
                                json!({"trace": trace, "seed": ctx.seed, "shard": ctx.shard, "sequence": seq}));
                        } else { rep.count("updated_and_equal", 1); }
                    }
                }
            } else if res.is_err() {
                // nothing in this harness damages the local files: a failed *run* can only come from what the server sent
                rep.violation(format!("C25/run-failed-on-server-behaviour/{}", fname.split('+').next().unwrap_or("")), format!(
                    "load_repository returned a run failure (aborting the whole validation run) instead of reporting the repository as not updated; server op {op}, faults {fname}, previous outcome {prev_outcome}"),
                    json!({"trace": trace, "seed": ctx.seed, "shard": ctx.shard, "sequence": seq}));
            } else if (fname == "none" || fname == "no-etag") && limit.map(|l| srv.objects.values().all(|o| o.len() as u64 <= l) && srv.deltas.iter().all(|d| d.publishes.iter().all(|p| p.1.len() as u64 <= l))).unwrap_or(true) {
                rep.count("healthy_step_not_updated", 1);
                if rep.samples.len() < 4 { rep.sample(json!({"healthy_step_not_updated": trace.last()})); }
            }
            if outcome == "updated" && faults.notify_status != Some(304) { last_good = Some(srv.clone()); }
            prev_outcome = outcome.to_string();
            prev_faults = fname.clone();
        }
        if seq == 0 { rep.sample(json!({"trace_of_first_sequence": trace})); }
    }
}

fn finish_c25(_t: crate::core::Tier, rep: &mut Report) {
    let upd = rep.counters.get("outcome_updated").copied().unwrap_or(0);
    let healthy_bad = rep.counters.get("healthy_step_not_updated").copied().unwrap_or(0);
    if upd == 0 { rep.inconclusive("no update ever succeeded"); rep.count("inconclusive_fatal", 1); }
    if healthy_bad * 10 > upd { rep.inconclusive(format!("{healthy_bad} healthy steps did not end Updated (vs {upd} updated)")); rep.count("inconclusive_fatal", 1); }
}

//============ C24 ===========================================================

pub const C24: Check = Check {
    id: "C24",
    level: "fault_enumeration",
    rule: "the real RRDP collector runs one load_repository in a subprocess against the scripted fake server; numbered kill points \
           (hook, SIGKILL to self) sit before every archive storage write, set_len, index finalisation, and before/after the removal \
           and rename that replace the archive by a new snapshot. Per scenario (snapshot over existing copy, single delta, multi-delta, \
           delta that conflicts and falls back to snapshot, first fetch) a counting run lists the K kill points, then the cache is \
           restored and the update is killed at point n (quick: up to 14 spread over 1..K, thorough: every n); afterwards the server \
           stays, or moves on by further versions, or starts a new session, and healthy runs follow. Oracle: every run after the crash \
           that reports Updated must leave the archive (full iteration + recorded session/serial) equal to the server's notified state; \
           a crashed cache that still fails after 3 healthy runs is counted (not a violation of this safety property; if frequent the check is inconclusive). distinct = (scenario, kill-point name, \
           follow-up, first outcome after the crash) classes",
    assumptions: &["process kill only: data written through the shared mapping or write() before the kill reaches the file (page cache), nothing is lost or reordered as a power failure could do",
                   "after the crash the server only moves forward (further versions / new session), as the property states"],
    shards: |_| 16,
    watchdog: |t| Duration::from_secs(t.pick(900, 7200)),
    budget: |t| Duration::from_secs(t.pick(60, 500)),
    run: run_c24,
    crash_is_violation: false,
    finish: Some(finish_c24),
};

/// `rv rrdp-child <dir> <proxy-url> <notify-uri>`: one collector run; prints the outcome and the local copy.
pub fn child_main(args: &[String]) -> i32 {
    let _hooks = crate::hooks::Hooks::install_from_env();
    let dir = std::path::PathBuf::from(&args[0]);
    let mut config = crate::util::base_config(&dir);
    FakeHttps::configure_with(&mut config, &args[1]);
    config.rrdp_fallback_time = Duration::from_secs(3600);
    let notify = rpki::uri::Https::from_str(&args[2]).unwrap();
    let mut coll = match RrdpCollector::new(&config) { Ok(Some(c)) => c, _ => { println!("{}", json!({"outcome": "init-failed"})); return 3 } };
    if coll.ignite().is_err() { println!("{}", json!({"outcome": "ignite-failed"})); return 3 }
    let run = coll.start();
    let res = run.load_repository(&notify);
    drop(run);
    let outcome = match &res {
        Ok(RrdpLoadResult::Updated(_)) => "updated", Ok(RrdpLoadResult::Current) => "current", Ok(RrdpLoadResult::Stale) => "stale",
        Ok(RrdpLoadResult::Unavailable) => "unavailable", Err(e) => if (*e).is_fatal() { "run-failed-fatal" } else { "run-failed-retry" },
    };
    drop(res);
    let local = match read_local(&config.cache_dir) {
        Ok((session, serial, objs)) => json!({"session": session, "serial": serial, "objects": objs.iter().map(|(u, b)| (u.clone(), crate::net::rrdp::sha256_hex(b))).collect::<BTreeMap<String, String>>()}),
        Err(e) => json!({"error": e}),
    };
    println!("{}", json!({"outcome": outcome, "local": local}));
    0
}

struct ChildOut { killed: bool, exit: Option<i32>, outcome: String, local: serde_json::Value, kill_points: Vec<String> }

fn run_child(dir: &std::path::Path, proxy: &str, notify: &str, kill_at: Option<u64>, log_points: bool) -> ChildOut {
    use std::os::unix::process::ExitStatusExt;
    let klog = dir.join("kill.log");
    let _ = std::fs::remove_file(&klog);
    let mut c = std::process::Command::new(std::env::current_exe().unwrap());
    c.arg("rrdp-child").arg(dir).arg(proxy).arg(notify).stdin(std::process::Stdio::null()).stderr(std::process::Stdio::null());
    if let Some(n) = kill_at { c.env("RV_KILL_AT", n.to_string()); }
    if log_points || kill_at.is_some() { c.env("RV_KILL_LOG", &klog); }
    let out = c.output().expect("spawn rrdp-child");
    let killed = out.status.signal() == Some(libc::SIGKILL);
    let v: serde_json::Value = serde_json::from_slice(out.stdout.split(|b| *b == b'\n').find(|l| l.starts_with(b"{")).unwrap_or(b"{}")).unwrap_or(json!({}));
    let kill_points = std::fs::read_to_string(&klog).unwrap_or_default().lines().map(|l| l.split('\t').nth(1).unwrap_or("").to_string()).collect();
    ChildOut { killed, exit: out.status.code(), outcome: v.get("outcome").and_then(|o| o.as_str()).unwrap_or("no-output").to_string(), local: v.get("local").cloned().unwrap_or(json!(null)), kill_points }
}

fn copy_dir(from: &std::path::Path, to: &std::path::Path) {
    let _ = std::fs::remove_dir_all(to);
    std::fs::create_dir_all(to).unwrap();
    for e in std::fs::read_dir(from).unwrap().flatten() {
        let p = e.path(); let t = to.join(e.file_name());
        if p.is_dir() { copy_dir(&p, &t) } else { let _ = std::fs::copy(&p, &t); }
    }
}

fn local_equals(local: &serde_json::Value, srv: &RrdpServer) -> Result<(), String> {
    if let Some(e) = local.get("error") { return Err(format!("local copy unreadable: {e}")) }
    let session = local.get("session").and_then(|s| s.as_str()).unwrap_or("");
    let serial = local.get("serial").and_then(|s| s.as_u64()).unwrap_or(u64::MAX);
    let objs: BTreeMap<String, String> = local.get("objects").and_then(|o| serde_json::from_value(o.clone()).ok()).unwrap_or_default();
    let truth: BTreeMap<String, String> = srv.objects.iter().map(|(u, b)| (u.clone(), crate::net::rrdp::sha256_hex(b))).collect();
    if session != srv.session || serial != srv.serial { return Err(format!("local copy records session {session} serial {serial}, server notified {} / {}", srv.session, srv.serial)) }
    if objs != truth {
        let mut d = Vec::new();
        for (u, h) in &objs { match truth.get(u) { None => d.push(format!("{} only local", u.rsplit('/').next().unwrap_or(""))), Some(t) if t != h => d.push(format!("{} differs", u.rsplit('/').next().unwrap_or(""))), _ => {} } }
        for u in truth.keys() { if !objs.contains_key(u) { d.push(format!("{} missing locally", u.rsplit('/').next().unwrap_or(""))); } }
        return Err(d.join("; "))
    }
    Ok(())
}

fn run_c24(ctx: &mut Ctx, rep: &mut Report) {
    let mut rng = ctx.rng("c24");
    let fake = match FakeHttps::start() { Ok(f) => f, Err(e) => { rep.inconclusive(format!("fake https: {e}")); return } };
    let proxy = fake.proxy_url();
    let notify = format!("https://{HOST}/rrdp/notification.xml");
    let cases = ctx.tier.pick(3usize, 40);
    let mut counter = 0u64;
    for case in 0..cases {
        if !ctx.time_left() { rep.note("time budget reached"); break }
        let scenario = *rng.pick(&["snapshot-over-copy", "single-delta", "multi-delta", "delta-conflict-then-snapshot", "first-fetch", "multi-delta"]);
        let dir = crate::util::scratch_sub(&ctx.scratch, "c24");
        let base = ctx.scratch.join("c24-base");
        let mut srv = RrdpServer::new(HOST, 0x7000 + (ctx.seed & 0xfff) * 1000 + (ctx.shard as u64) * 50 + case as u64);
        srv.objects = mutate_objects(&mut rng, &BTreeMap::new(), &mut counter);
        for _ in 0..2 { srv.objects = mutate_objects(&mut rng, &srv.objects, &mut counter); }
        fake.clear();
        srv.install(&fake, &Faults::default());
        // --- prime (except first-fetch)
        if scenario != "first-fetch" {
            let o = run_child(&dir, &proxy, &notify, None, false);
            if o.outcome != "updated" { rep.inconclusive(format!("priming run ended {}", o.outcome)); continue }
        }
        // --- the update that will be interrupted
        let mut faults = Faults::default();
        match scenario {
            "snapshot-over-copy" => { srv.new_session(0xa000 + counter); counter += 1; srv.objects = mutate_objects(&mut rng, &srv.objects, &mut counter); }
            "single-delta" => { let n = mutate_objects(&mut rng, &srv.objects, &mut counter); srv.update(n); }
            "multi-delta" => { for _ in 0..2 + rng.usize(3) { let n = mutate_objects(&mut rng, &srv.objects, &mut counter); srv.update(n); } }
            "delta-conflict-then-snapshot" => { for _ in 0..2 { let n = mutate_objects(&mut rng, &srv.objects, &mut counter); srv.update(n); } faults.delta_fault = Some((0, *rng.pick(&[DeltaFault::LateWrongObjectHash, DeltaFault::WrongHash]))); }
            _ => {}
        }
        fake.clear();
        srv.install(&fake, &faults);
        copy_dir(&dir, &base);
        // counting run
        let count = run_child(&dir, &proxy, &notify, None, true);
        if count.outcome != "updated" { rep.inconclusive(format!("counting run of scenario {scenario} ended {}", count.outcome)); continue }
        let k = count.kill_points.len() as u64;
        rep.max("max_kill_points_in_one_update", k);
        if k == 0 { rep.inconclusive(format!("no kill point reached in scenario {scenario}")); continue }
        let picks: Vec<u64> = if ctx.tier.pick(true, false) && k > 14 {
            let mut v: Vec<u64> = vec![1, 2, k - 1, k];
            // the first and last occurrence of every distinct kind of step
            let mut names: Vec<&String> = count.kill_points.iter().collect(); names.sort(); names.dedup();
            for name in names {
                if let Some(i) = count.kill_points.iter().position(|p| p == name) { if !v.contains(&(i as u64 + 1)) { v.push(i as u64 + 1) } }
                if let Some(i) = count.kill_points.iter().rposition(|p| p == name) { if !v.contains(&(i as u64 + 1)) { v.push(i as u64 + 1) } }
            }
            while v.len() < 14 { let n = 1 + rng.below(k); if !v.contains(&n) { v.push(n) } }
            v.sort(); v
        } else { (1..=k).collect() };
        for n in picks {
            if !ctx.time_left() { rep.note("time budget reached"); break }
            copy_dir(&base, &dir);
            fake.clear();
            srv.install(&fake, &faults);
            ctx.begin_case(&json!({"scenario": scenario, "kill_at": n, "of": k}));
            let killed = run_child(&dir, &proxy, &notify, Some(n), true);
            rep.eval();
            if !killed.killed { rep.inconclusive(format!("child was not killed at point {n}/{k} (exit {:?}, outcome {})", killed.exit, killed.outcome)); continue }
            let point = count.kill_points.get(n as usize - 1).cloned().unwrap_or_default();
            rep.count(&format!("kills_at_{point}"), 1);
            // --- follow-up history
            let mut after = srv.clone();
            let follow = *rng.pick(&["server-unchanged", "one-more-version", "three-more-versions", "new-session"]);
            match follow {
                "one-more-version" => { let nn = mutate_objects(&mut rng, &after.objects, &mut counter); after.update(nn); }
                "three-more-versions" => { for _ in 0..3 { let nn = mutate_objects(&mut rng, &after.objects, &mut counter); after.update(nn); } }
                "new-session" => { after.new_session(0xb000 + counter); counter += 1; after.objects = mutate_objects(&mut rng, &after.objects, &mut counter); }
                _ => {}
            }
            let mut first_outcome = String::new();
            let mut recovered = false;
            let mut trace = vec![json!({"scenario": scenario, "killed_at": n, "of": k, "point": point, "follow_up": follow})];
            for attempt in 0..3 {
                fake.clear();
                // the fault of the interrupted update (if any) is gone after the crash
                after.install(&fake, &Faults::default());
                let o = run_child(&dir, &proxy, &notify, None, false);
                if attempt == 0 { first_outcome = o.outcome.clone(); }
                trace.push(json!({"run_after_crash": attempt + 1, "outcome": o.outcome, "server": {"session": after.session, "serial": after.serial}}));
                if o.outcome == "updated" {
                    recovered = true;
                    if let Err(d) = local_equals(&o.local, &after) {
                        rep.violation(format!("C24/updated-but-divergent-after-crash/{scenario}/{point}"), format!(
                            "update killed at point {n}/{k} ({point}) in scenario {scenario}; run {} afterwards ({follow}) reported Updated but: {d}", attempt + 1),
                            json!({"trace": trace, "seed": ctx.seed, "shard": ctx.shard, "case": case}));
                    } else { rep.count("updated_and_equal_after_crash", 1); }
                    break
                }
                if o.outcome.starts_with("run-failed-fatal") || o.outcome == "no-output" || o.outcome.ends_with("-failed") { break }
                // move the server on a little so that each attempt sees a fresh notification
                let nn = mutate_objects(&mut rng, &after.objects, &mut counter); after.update(nn);
            }
            if !recovered {
                rep.count("not_recovered_within_3_runs", 1);
                // not a violation of the (safety) property; recorded so that a vacuous run is visible
                rep.note(format!("update killed at point {n}/{k} ({point}) in scenario {scenario}: three healthy runs afterwards all failed ({first_outcome} first)"));
            }
            rep.class(format!("{scenario}|{point}|{follow}|{first_outcome}"));
            if rep.samples.len() < 2 { rep.sample(json!({"trace": trace})); }
        }
    }
}

fn finish_c24(_t: crate::core::Tier, rep: &mut Report) {
    if rep.counters.get("updated_and_equal_after_crash").copied().unwrap_or(0) == 0 && rep.violations.is_empty() {
        rep.inconclusive("no crashed update was followed by a successful one"); rep.count("inconclusive_fatal", 1);
    }
    let ok = rep.counters.get("updated_and_equal_after_crash").copied().unwrap_or(0);
    let bad = rep.counters.get("not_recovered_within_3_runs").copied().unwrap_or(0);
    if bad > ok { rep.inconclusive(format!("{bad} crashed caches did not recover within 3 healthy runs (vs {ok} that did)")); rep.count("inconclusive_fatal", 1); }
}
