//! C19 (RTR listener keeps accepting after a failed connection setup) and
//! C36 (per-client RTR metrics stay consistent under concurrency).

use std::net::{IpAddr, Ipv4Addr, SocketAddr};
use std::sync::Arc;
use std::time::{Duration, Instant};
use serde_json::json;
use routinator::metrics::RtrServerMetrics;
use rpki::rtr::client::Client;
use crate::core::{Check, Ctx, Report, Rng};
use crate::hooks::{Action as HookAction, Hooks};
use crate::pgen::Model;
use crate::srv::{free_port, RtrTarget, TestServer};

type RtrClient = Client<tokio::net::TcpStream, RtrTarget>;

/// Connects from `local` and performs a reset query. Ok(Some(client)) =
/// answered (connection kept open inside the client), Ok(None) = connection
/// closed / error PDU, Err("timeout") = nothing happened within `window`.
async fn connect_and_reset(local: IpAddr, server: SocketAddr, window: Duration) -> Result<Option<RtrClient>, String> {
    let fut = async {
        let sock = tokio::net::TcpSocket::new_v4().map_err(|e| e.to_string())?;
        sock.bind(SocketAddr::new(local, 0)).map_err(|e| format!("bind {local}: {e}"))?;
        let stream = sock.connect(server).await.map_err(|e| format!("connect: {e}"))?;
        let mut client = Client::with_initial_version(2, stream, RtrTarget::default(), None);
        match client.step().await {
            Ok(()) => Ok(Some(client)),
            Err(_) => Ok(None),
        }
    };
    match tokio::time::timeout(window, fut).await {
        Ok(r) => r,
        Err(_) => Err("timeout".into()),
    }
}

pub const C19: Check = Check {
    id: "C19",
    level: "fault_enumeration",
    rule: "two RTR listeners run in the same real rtr_listener future; listener A receives sequences of connections of \
           which a chosen subset fails per-connection setup (fault hook keyed by client source address 127.0.0.2, or a \
           keepalive value the kernel rejects: 40000 s and 2^32+5 s), listener B (never failing) is the liveness control on the same runtime. \
           Oracle: after any failed setup, an un-faulted connection to A must get its Reset Query answered; with the \
           kernel-rejected keepalive every connection must be accepted and closed (EOF) rather than left in the backlog; \
           burst leg: all connections of a burst are established back to back before any protocol step, so setups fail while others wait in the backlog - every un-faulted one must be answered, none closed. \
           A missing answer is a violation only if it persists over three attempts with growing windows (1,2,4 s) while B \
           answered in each window; otherwise inconclusive. distinct = (leg, failure pattern, position of first failure)",
    assumptions: &["kernel rejects TCP_KEEPIDLE above 32767 s (probed at run time; the leg is skipped as inconclusive-note if not)"],
    shards: |_| 4,
    watchdog: |t| Duration::from_secs(t.pick(300, 3600)),
    budget: |t| Duration::from_secs(t.pick(40, 300)),
    run: run_c19,
    crash_is_violation: false,
    finish: None,
};

fn start_two_listener_server(ctx: &Ctx, keepalive: Option<Duration>, metrics: bool, extra: usize) -> Result<TestServer, String> {
    let ports: Vec<SocketAddr> = (0..extra).map(|_| format!("127.0.0.1:{}", free_port()).parse().unwrap()).collect();
    TestServer::start(&ctx.scratch, move |c| {
        c.rtr_listen = ports.clone();
        c.rtr_tcp_keepalive = keepalive;
        c.rtr_client_metrics = metrics;
    })
}

fn run_c19(ctx: &mut Ctx, rep: &mut Report) {
    let hooks = Hooks::install();
    hooks.set_record(false);
    let mut rng = ctx.rng("c19");
    let rt = tokio::runtime::Builder::new_multi_thread().worker_threads(2).enable_all().build().unwrap();
    let good: IpAddr = Ipv4Addr::new(127, 0, 0, 1).into();
    let bad: IpAddr = Ipv4Addr::new(127, 0, 0, 2).into();
    let rounds = ctx.tier.pick(3usize, 60);
    for round in 0..rounds {
        if !ctx.time_left() { rep.note("time budget reached"); break }
        // un-faulted clients rotate over loopback aliases so that closed connections (TIME_WAIT) do not use up the
        // ephemeral ports of one source address
        let good: IpAddr = Ipv4Addr::new(127, 0, 0, 10 + (round % 40) as u8).into();
        // Leg 1: fault-injected subset. New server per round (a stalled listener stays stalled).
        let mut srv = match start_two_listener_server(ctx, None, false, 1) {
            Ok(s) => s, Err(e) => { rep.note(format!("server start failed, round skipped: {e}")); rep.count("server_start_failures", 1); std::thread::sleep(Duration::from_millis(200)); continue }
        };
        if srv.install(&hooks, &Model::rand(&mut rng)).is_err() { rep.inconclusive("update failed"); return }
        let a = srv.rtr_addr;
        let b = srv.config.rtr_listen[0];
        hooks.clear_detail_faults();
        hooks.add_detail_fault("rtr.setup", "127.0.0.2:", 1);
        let len = 2 + rng.usize(5);
        let pattern: Vec<bool> = (0..len).map(|i| if i == 0 && round % 2 == 0 { true } else { rng.chance(1, 2) }).collect();
        let mut failed_before = false;
        let mut verdict_done = false;
        for (i, fail) in pattern.iter().enumerate() {
            let local = if *fail { bad } else { good };
            ctx.begin_case(&json!({"leg": "fault", "pattern": pattern, "index": i}));
            let r = rt.block_on(connect_and_reset(local, a, Duration::from_secs(1)));
            rep.eval();
            match (*fail, r) {
                (true, Ok(None)) => { failed_before = true; rep.count("setup_failures_observed_as_close", 1); }
                (true, Ok(Some(_))) => rep.inconclusive("faulted connection was served; fault hook not reached"),
                (true, Err(e)) if e == "timeout" => {
                    // A faulted connection that is never closed: only possible if the listener
                    // already stalled on an earlier failure.
                    if !failed_before { rep.inconclusive("first faulted connection timed out instead of being closed"); }
                    failed_before = true;
                }
                (false, Ok(Some(_))) => { rep.class(format!("fault|answered|after-failure{}", failed_before as u8)); }
                (false, Ok(None)) => rep.violation("C19/good-connection-closed", "un-faulted connection was closed without an answer", json!({"pattern": pattern, "index": i})),
                (false, Err(e)) if e == "timeout" => {
                    // Persistence + control.
                    let mut persisted = true;
                    let mut control_ok = true;
                    for w in [1u64, 2, 4] {
                        let c = rt.block_on(connect_and_reset(good, b, Duration::from_secs(w)));
                        if !matches!(c, Ok(Some(_))) { control_ok = false; break }
                        let again = rt.block_on(connect_and_reset(good, a, Duration::from_secs(w)));
                        if matches!(again, Ok(Some(_))) { persisted = false; break }
                    }
                    if !control_ok { rep.inconclusive("control listener did not answer; machine too loaded to judge"); }
                    else if persisted {
                        rep.class(format!("fault|stalled|after-failure{}", failed_before as u8));
                        if failed_before {
                            rep.violation("C19/listener-stalls-after-setup-failure", format!(
                                "after a failed connection setup on listener {a}, un-faulted connections were not served in 1+2+4 s windows \
                                 while the control listener {b} on the same runtime answered each time"),
                                json!({"pattern": pattern, "index": i, "leg": "fault-hook"}));
                        } else {
                            rep.inconclusive("listener unresponsive without any prior setup failure");
                        }
                        verdict_done = true;
                    } else { rep.note("slow answer on first attempt, answered on retry"); }
                }
                (_, Err(e)) => rep.inconclusive(format!("client error: {e}")),
                (_, _) => {}
            }
            if verdict_done { break }
        }
        hooks.clear_detail_faults();
        rep.sample(json!({"leg": "fault-hook", "pattern_fail_flags": pattern}));
        drop(srv);

        // Leg 3: bursts. All TCP connections of a burst are established back to back (they queue in the accept
        // backlog) before any protocol step, so a failing setup is processed while other connections are waiting.
        {
            let mut srv = match start_two_listener_server(ctx, None, false, 1) {
                Ok(s) => s, Err(e) => { rep.note(format!("server start failed, round skipped: {e}")); rep.count("server_start_failures", 1); std::thread::sleep(Duration::from_millis(200)); continue }
            };
            if srv.install(&hooks, &Model::rand(&mut rng)).is_err() { rep.inconclusive("update failed"); return }
            let a = srv.rtr_addr;
            let b = srv.config.rtr_listen[0];
            hooks.clear_detail_faults();
            hooks.add_detail_fault("rtr.setup", "127.0.0.2:", 1);
            let bursts = ctx.tier.pick(8usize, 40);
            'bursts: for burst in 0..bursts {
                let n = 2 + rng.usize(4);
                let mut pattern: Vec<bool> = (0..n).map(|_| rng.chance(1, 2)).collect();
                pattern[0] = true; *pattern.last_mut().unwrap() = false;
                ctx.begin_case(&json!({"leg": "burst", "pattern": pattern, "burst": burst}));
                let pat = pattern.clone();
                let results: Vec<(bool, Result<Option<()>, String>)> = rt.block_on(async move {
                    let mut streams = Vec::new();
                    for fail in pat.iter() {
                        let local = if *fail { bad } else { good };
                        let sock = match tokio::net::TcpSocket::new_v4() { Ok(s) => s, Err(e) => { streams.push((*fail, Err(e.to_string()))); continue } };
                        if let Err(e) = sock.bind(SocketAddr::new(local, 0)) { streams.push((*fail, Err(e.to_string()))); continue }
                        streams.push((*fail, sock.connect(a).await.map_err(|e| e.to_string())));
                    }
                    let mut out = Vec::new();
                    for (fail, st) in streams {
                        match st {
                            Err(e) => out.push((fail, Err(e))),
                            Ok(stream) => {
                                let mut client = Client::with_initial_version(2, stream, RtrTarget::default(), None);
                                let r = tokio::time::timeout(Duration::from_secs(2), client.step()).await;
                                out.push((fail, match r { Ok(Ok(())) => Ok(Some(())), Ok(Err(_)) => Ok(None), Err(_) => Err("timeout".to_string()) }));
                            }
                        }
                    }
                    out
                });
                for (i, (fail, r)) in results.iter().enumerate() {
                    rep.eval();
                    let replay = json!({"leg": "burst", "pattern_fail_flags": pattern, "index": i, "burst": burst});
                    match (*fail, r) {
                        (true, Ok(None)) => rep.count("setup_failures_observed_as_close", 1),
                        (true, Ok(Some(_))) => rep.inconclusive("faulted connection was served; fault hook not reached"),
                        (true, Err(_)) => {}
                        (false, Ok(Some(_))) => rep.class(format!("burst|answered|len{}|pos{}", pattern.len(), i)),
                        (false, Ok(None)) => rep.violation("C19/good-connection-closed", format!(
                            "burst {:?} (true = failing setup): the un-faulted connection at position {i}, queued while an earlier setup failed, was closed without an answer", pattern), replay),
                        (false, Err(e)) if e == "timeout" => {
                            let mut persisted = true; let mut control_ok = true;
                            for w in [1u64, 2, 4] {
                                let c = rt.block_on(connect_and_reset(good, b, Duration::from_secs(w)));
                                if !matches!(c, Ok(Some(_))) { control_ok = false; break }
                                let again = rt.block_on(connect_and_reset(good, a, Duration::from_secs(w)));
                                if matches!(again, Ok(Some(_))) { persisted = false; break }
                            }
                            if !control_ok { rep.inconclusive("control listener did not answer; machine too loaded to judge"); }
                            else if persisted {
                                rep.violation("C19/listener-stalls-after-setup-failure", format!(
                                    "burst {:?}: after failed setups with other connections queued, listener {a} served nothing in 1+2+4 s windows while control listener {b} answered", pattern), replay);
                                break 'bursts
                            } else { rep.note("burst: slow answer, served on retry"); }
                        }
                        (false, Err(e)) => rep.inconclusive(format!("client error: {e}")),
                    }
                }
            }
            hooks.clear_detail_faults();
            drop(srv);
        }

        // Leg 2: keepalive the kernel rejects (no hooks involved) and an accepted value as control.
        let mut refused_with_rejected_keepalive: Option<Vec<String>> = None;
        for (ka, expect_fail) in [(40_000u64, true), ((1u64 << 32) + 5, true), (600u64, false)] {
            let mut srv = match start_two_listener_server(ctx, Some(Duration::from_secs(ka)), false, 0) {
                Ok(s) => s,
                Err(e) => {
                    // with the rejected keepalive value a listener that does not even come up is judged against the control
                    if expect_fail && e.contains("rtr_listener") { refused_with_rejected_keepalive = Some(vec![format!("server start: {e}")]); }
                    else { rep.note(format!("server start failed, round skipped: {e}")); rep.count("server_start_failures", 1); refused_with_rejected_keepalive = None; }
                    std::thread::sleep(Duration::from_millis(200)); continue
                }
            };
            if srv.install(&hooks, &Model::rand(&mut rng)).is_err() { rep.inconclusive("update failed"); return }
            let a = srv.rtr_addr;
            let mut outcomes = Vec::new();
            for i in 0..4 {
                ctx.begin_case(&json!({"leg": "keepalive", "keepalive": ka, "index": i}));
                let r = rt.block_on(connect_and_reset(good, a, Duration::from_secs(if i == 0 { 2 } else { 3 })));
                rep.eval();
                outcomes.push(match &r { Ok(Some(_)) => "answered", Ok(None) => "closed", Err(e) if e == "timeout" => "timeout", Err(_) => "error" });
            }
            rep.class(format!("keepalive{}|{}", ka, outcomes.join(",")));
            if expect_fail {
                if outcomes[0] == "answered" { rep.note("kernel accepted keepalive 40000 s; leg not applicable"); continue }
                if outcomes[0] == "closed" && outcomes[1..].iter().all(|o| *o == "timeout") {
                    // Persisted over three later attempts; control = the accepted-value server below answers.
                    rep.violation("C19/listener-stalls-after-setup-failure", format!(
                        "rtr-tcp-keepalive {ka}s is rejected by the kernel: the first connection was closed, the following three were never accepted/closed ({:?})", outcomes),
                        json!({"leg": "keepalive", "keepalive": ka, "outcomes": outcomes}));
                }
                else if outcomes[1..].iter().all(|o| *o == "error") {
                    // nothing listens at all: judged against the control below (same harness, accepted keepalive value)
                    refused_with_rejected_keepalive = Some(outcomes.iter().map(|s| s.to_string()).collect::<Vec<_>>());
                }
                else if outcomes.iter().any(|o| *o == "timeout") {
                    rep.inconclusive(format!("keepalive leg: mixed outcomes {:?}", outcomes));
                }
            }
            else if outcomes.iter().any(|o| *o != "answered") {
                rep.inconclusive(format!("control keepalive {ka}: outcomes {:?}", outcomes));
                refused_with_rejected_keepalive = None;
            }
            else if let Some(o) = refused_with_rejected_keepalive.take() {
                rep.violation("C19/listener-not-accepting-with-rejected-keepalive", format!(
                    "an rtr-tcp-keepalive value the kernel rejects for every connection (40000 s or 2^32+5 s): the RTR listener does not accept later connections ({:?}) while the same server with keepalive {ka}s answers", o),
                    json!({"leg": "keepalive", "outcomes": o}));
            }
        }
    }
    Hooks::uninstall();
}

//------------ C36 -----------------------------------------------------------

pub const C36: Check = Check {
    id: "C36",
    level: "exploration",
    rule: "per-client metrics on; (a) real TCP clients bound to 127.0.0.1..127.0.0.40 connect concurrently to four RTR \
           listeners of the real rtr_listener (each listener task registers addresses concurrently; up to four further clients have their connection setup fail and are closed at once), hook delays inside \
           the address registry (before taking the writer lock, before publishing the new list); after every client got \
           its Reset Query answered: clients() must be sorted, hold exactly one entry per connected address, and each \
           entry's open-connection count equals the connections that address holds; after all connections were closed and \
           all RtrStream drop events were counted (logical quiescence): every count is 0. (b) library leg: 8 threads call \
           RtrServerMetrics::get_client for new and existing addresses with the same delays; same list oracle plus \
           pointer identity (all callers of one address share one counter). distinct = (leg, addresses, overlap degree \
           observed at the hook) classes",
    assumptions: &["loopback aliases 127.0.0.x bind without configuration"],
    shards: |_| 4,
    watchdog: |t| Duration::from_secs(t.pick(300, 3600)),
    budget: |t| Duration::from_secs(t.pick(30, 300)),
    run: run_c36,
    crash_is_violation: false,
    finish: None,
};

fn check_clients(metrics: &RtrServerMetrics, expect: &std::collections::BTreeMap<IpAddr, usize>, phase: &str, rep: &mut Report, replay: serde_json::Value) {
    let Some(list) = metrics.clients() else { rep.violation("C36/no-client-list", "per-client metrics enabled but clients() is None", replay); return };
    let addrs: Vec<IpAddr> = list.iter().map(|x| x.0).collect();
    let mut sorted = addrs.clone(); sorted.sort();
    if addrs != sorted { rep.violation("C36/unsorted", format!("{phase}: client list not sorted: {:?}", addrs), replay.clone()); }
    let mut dedup = sorted.clone(); dedup.dedup();
    if dedup.len() != sorted.len() { rep.violation("C36/duplicate-address", format!("{phase}: an address appears twice: {:?}", addrs), replay.clone()); }
    for a in expect.keys() {
        if !addrs.contains(a) { rep.violation("C36/address-lost", format!("{phase}: address {a} connected but is missing from the list {:?}", addrs), replay.clone()); }
    }
    for (a, data) in list.iter() {
        let want = expect.get(a).copied().unwrap_or(0);
        // With duplicates the sum over entries of the same address must match.
        let have: usize = list.iter().filter(|x| x.0 == *a).map(|x| x.1.current_connections()).sum();
        let _ = data;
        if have != want {
            rep.violation("C36/connection-count", format!("{phase}: address {a} shows {have} open connections, expected {want}"), replay.clone());
        }
    }
}

fn run_c36(ctx: &mut Ctx, rep: &mut Report) {
    let hooks = Hooks::install();
    let mut rng = ctx.rng("c36");
    let rounds = ctx.tier.pick(4usize, 1200);
    // (b) library leg
    for round in 0..rounds * 6 {
        if !ctx.time_left() { break }
        let metrics = Arc::new(RtrServerMetrics::new(true));
        let naddr = 2 + rng.usize(10);
        hooks.set_action("rtrmetrics.before_lock", if rng.bool() { Some(HookAction::Sleep(Duration::from_micros(200))) } else { Some(HookAction::Yield) });
        hooks.set_action("rtrmetrics.before_store", if rng.bool() { Some(HookAction::Sleep(Duration::from_micros(300))) } else { None });
        hooks.take_events();
        let mut handles = Vec::new();
        for t in 0..8u64 {
            let metrics = metrics.clone();
            let mut r = Rng::derive(ctx.seed, "c36-lib", t + 100 * round as u64 + 10_000 * ctx.shard as u64);
            handles.push(std::thread::spawn(move || {
                let mut mine = Vec::new();
                for _ in 0..6 {
                    let ip: IpAddr = Ipv4Addr::new(10, 0, 0, 1 + r.usize(naddr) as u8).into();
                    let c = metrics.get_client(ip);
                    c.update(|m| m.inc_current_connections());
                    mine.push((ip, c));
                }
                mine
            }));
        }
        let mut all = Vec::new();
        for h in handles { all.extend(h.join().unwrap()); }
        rep.eval();
        let mut expect = std::collections::BTreeMap::new();
        for (ip, _) in &all { *expect.entry(*ip).or_insert(0usize) += 1; }
        let ev = hooks.take_events();
        let overlap = ev.iter().filter(|e| e.name == "rtrmetrics.before_lock").count();
        check_clients(&metrics, &expect, "library/after-connect", rep, json!({"leg": "library", "round": round, "addresses": naddr, "seed": ctx.seed, "shard": ctx.shard}));
        for (_, c) in &all { c.update(|m| m.dec_current_connections()); }
        for v in expect.values_mut() { *v = 0 }
        check_clients(&metrics, &expect, "library/after-close", rep, json!({"leg": "library", "round": round}));
        rep.class(format!("library|addrs{}|slowpath{}", naddr.min(6), overlap.min(12)));
        rep.max("max_concurrent_slow_path_entries", overlap as u64);
    }
    // (b2) counter stress: connections of one address open and close on many threads at once; the count returns to zero
    for round in 0..ctx.tier.pick(3usize, 40) {
        if !ctx.time_left() { break }
        let metrics = Arc::new(RtrServerMetrics::new(true));
        let ip: IpAddr = Ipv4Addr::new(10, 9, 9, 9).into();
        let barrier = Arc::new(std::sync::Barrier::new(8));
        let mut handles = Vec::new();
        for _ in 0..8 {
            let metrics = metrics.clone(); let barrier = barrier.clone();
            handles.push(std::thread::spawn(move || {
                let c = metrics.get_client(ip);
                barrier.wait();
                for _ in 0..4000 { c.update(|m| m.inc_current_connections()); c.update(|m| m.dec_current_connections()); }
            }));
        }
        for h in handles { let _ = h.join(); }
        rep.eval();
        let mut expect = std::collections::BTreeMap::new(); expect.insert(ip, 0usize);
        check_clients(&metrics, &expect, "library/counter-stress", rep, json!({"leg": "counter-stress", "round": round}));
        rep.class("library|counter-stress");
    }
    // (a) listener leg
    let rt = tokio::runtime::Builder::new_multi_thread().worker_threads(4).enable_all().build().unwrap();
    for round in 0..rounds {
        if !ctx.time_left() { rep.note("time budget reached"); break }
        let mut srv = match start_two_listener_server(ctx, None, true, 3) {
            Ok(s) => s, Err(e) => { rep.inconclusive(format!("server start: {e}")); return }
        };
        if srv.install(&hooks, &Model::rand(&mut rng)).is_err() { rep.inconclusive("update failed"); return }
        let mut listeners = vec![srv.rtr_addr];
        listeners.extend(srv.config.rtr_listen.iter().cloned());
        hooks.set_action("rtrmetrics.before_lock", Some(HookAction::Sleep(Duration::from_millis(rng.below(3)))));
        hooks.set_action("rtrmetrics.before_store", Some(HookAction::Sleep(Duration::from_millis(rng.below(3)))));
        hooks.take_events();
        let nclients = 8 + rng.usize(33);
        let naddr = 1 + rng.usize(40);
        let plan: Vec<(IpAddr, SocketAddr)> = (0..nclients).map(|i| {
            let ip: IpAddr = Ipv4Addr::new(127, 0, 0, 1 + ((i + rng.usize(2) * 7) % naddr) as u8).into();
            (ip, listeners[i % listeners.len()])
        }).collect();
        // a few more clients whose connection setup fails (fault hook keyed by their source addresses): they are closed
        // at once and must not leave an open-connection count behind
        hooks.clear_detail_faults();
        for a in ["127.0.0.250:", "127.0.0.251:", "127.0.0.252:"] { hooks.add_detail_fault("rtr.setup", a, 1); }
        let nfail = rng.usize(5);
        let mut plan = plan;
        for i in 0..nfail { plan.push((Ipv4Addr::new(127, 0, 0, 250 + (i % 3) as u8).into(), listeners[i % listeners.len()])); }
        // spread them among the others
        for i in (1..plan.len()).rev() { let j = rng.usize(i + 1); plan.swap(i, j); }
        ctx.begin_case(&json!({"leg": "listener", "clients": nclients, "addresses": naddr, "failing_setups": nfail}));
        let results = rt.block_on(async {
            let mut set = Vec::new();
            for (ip, l) in plan.iter().cloned() {
                set.push(tokio::spawn(async move { (ip, connect_and_reset(ip, l, Duration::from_secs(20)).await) }));
            }
            let mut out = Vec::new();
            for h in set { out.push(h.await.unwrap()); }
            out
        });
        rep.eval();
        let mut expect = std::collections::BTreeMap::new();
        let mut clients = Vec::new();
        let mut ok = true;
        for (ip, r) in results {
            let failing = matches!(ip, IpAddr::V4(a) if a.octets()[3] >= 250);
            match r {
                Ok(None) if failing => { rep.count("failed_setups_in_listener_leg", 1); }
                Ok(Some(c)) => { *expect.entry(ip).or_insert(0usize) += 1; clients.push(c); }
                other => { ok = false; rep.inconclusive(format!("listener leg: client from {ip} not served: {:?}", other.map(|_| ()))); }
            }
        }
        if !ok { continue }
        let replay = json!({"leg": "listener", "round": round, "clients": nclients, "addresses": naddr, "seed": ctx.seed, "shard": ctx.shard});
        check_clients(&srv.rtr_metrics, &expect, "listener/all-connected", rep, replay.clone());
        let opened = clients.len() as u64;
        let before_drops = hooks.count("rtr.stream.drop");
        rt.block_on(async { drop(clients); tokio::task::yield_now().await; });
        // Logical quiescence: wait for all drop events.
        let t0 = Instant::now();
        while hooks.count("rtr.stream.drop") < before_drops + opened && t0.elapsed() < Duration::from_secs(20) {
            std::thread::sleep(Duration::from_millis(2));
        }
        if hooks.count("rtr.stream.drop") < before_drops + opened {
            rep.inconclusive("not all RTR streams were dropped within 20 s"); continue
        }
        for v in expect.values_mut() { *v = 0 }
        check_clients(&srv.rtr_metrics, &expect, "listener/all-closed", rep, replay);
        hooks.clear_detail_faults();
        let ev = hooks.take_events();
        let slow = ev.iter().filter(|e| e.name == "rtrmetrics.before_lock").count();
        rep.class(format!("listener|addrs{}|clients{}|slowpath{}", naddr.min(8), nclients / 10, slow.min(10)));
        rep.count("rtr_stream_drop_events", opened);
        if rep.samples.len() < 2 { rep.sample(json!({"leg": "listener", "clients": nclients, "distinct_addresses": expect.len(), "listeners": listeners.len()})); }
    }
    hooks.set_action("rtrmetrics.before_lock", None);
    hooks.set_action("rtrmetrics.before_store", None);
    Hooks::uninstall();
}
