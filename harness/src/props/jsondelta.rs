//! C18: /json-delta responses are single well-formed JSON documents with
//! exactly the items of the change set / data set.

use std::collections::BTreeSet;
use std::time::Duration;
use serde_json::{json, Value};
use rpki::resources::Asn;
use crate::core::{Check, Ctx, Report, Rng};
use crate::hooks::Hooks;
use crate::pgen::{fmt_key, fmt_origin, fmt_prov, hex, providers, router_key, wide_origin, Model};
use crate::srv::{http_get, TestServer};

pub const C18: Check = Check {
    id: "C18",
    level: "exploration",
    rule: "through the real http_listener: versions with 0..~1100 items (route origins with varied text widths, \
           router keys, ASPAs with 0..40 providers) are installed via the real server update step; GET /json-delta \
           (reset) and ?session&serial (delta from each earlier version) bodies are reassembled from the chunked \
           transfer and must parse as exactly one JSON document (serde_json, nothing trailing); reset flag, session, \
           serial, fromSerial and the announced/withdrawn lists are compared as sets with the harness's versions \
           (duplicates are a violation). Item counts are swept so that the 64 kB cut falls near every structural \
           position; distinct = (kind, what-the-second-chunk-starts-with, empty-announce, empty-withdraw, item types) \
           classes observed on the wire",
    assumptions: &["withdrawn ASPAs are identified by customer only; providerAsns of a withdrawn ASPA is not judged"],
    shards: |_| 16,
    watchdog: |t| Duration::from_secs(t.pick(300, 3600)),
    budget: |t| Duration::from_secs(t.pick(35, 300)),
    run: run_c18,
    crash_is_violation: false,
    finish: None,
};

#[derive(Debug, Default)]
pub struct ParsedDelta {
    pub reset: bool,
    pub session: String,
    pub serial: u64,
    pub from_serial: Option<u64>,
    pub announced: Vec<String>,
    pub withdrawn: Vec<String>,
}

/// Converts one JSON payload item to the harness's canonical item string.
/// ASPA items become "aspa <customer> [providers]".
pub fn item_string(v: &Value) -> Result<String, String> {
    let ty = v.get("type").and_then(|t| t.as_str()).ok_or("item without type")?;
    match ty {
        "routeOrigin" => {
            let asn = v.get("asn").and_then(|x| x.as_str()).ok_or("origin without asn")?;
            let prefix = v.get("prefix").and_then(|x| x.as_str()).ok_or("origin without prefix")?;
            let max = v.get("maxLength").and_then(|x| x.as_u64()).ok_or("origin without maxLength")?;
            let (addr, len) = prefix.split_once('/').ok_or("bad prefix")?;
            Ok(format!("{}/{}-{} {}", addr, len, max, asn))
        }
        "routerKey" => {
            let ki = v.get("keyIdentifier").and_then(|x| x.as_str()).ok_or("key without keyIdentifier")?;
            let asn = v.get("asn").and_then(|x| x.as_str()).ok_or("key without asn")?;
            let info = v.get("keyInfo").and_then(|x| x.as_str()).ok_or("key without keyInfo")?;
            let bytes = rpki::util::base64::Slurm.decode(info).map_err(|_| "keyInfo not base64")?;
            Ok(format!("key {} {} {}", ki, asn, hex(&bytes)))
        }
        "aspa" => {
            let c = v.get("customerAsn").and_then(|x| x.as_str()).ok_or("aspa without customerAsn")?;
            let p = v.get("providerAsns").and_then(|x| x.as_array()).ok_or("aspa without providerAsns")?;
            let mut out = Vec::new();
            for a in p { out.push(a.as_str().ok_or("provider not a string")?.to_string()); }
            Ok(format!("aspa {} [{}]", c, out.join(",")))
        }
        other => Err(format!("unknown item type {other}")),
    }
}

pub fn parse_delta(body: &[u8]) -> Result<ParsedDelta, String> {
    let mut de = serde_json::Deserializer::from_slice(body);
    let v: Value = serde::Deserialize::deserialize(&mut de).map_err(|e| format!("not valid JSON: {e}"))?;
    de.end().map_err(|e| format!("trailing data after JSON document: {e}"))?;
    let mut p = ParsedDelta::default();
    p.reset = v.get("reset").and_then(|x| x.as_bool()).ok_or("no reset member")?;
    p.session = v.get("session").and_then(|x| x.as_str()).ok_or("no session member")?.to_string();
    p.serial = v.get("serial").and_then(|x| x.as_u64()).ok_or("no serial member")?;
    p.from_serial = v.get("fromSerial").and_then(|x| x.as_u64());
    for it in v.get("announced").and_then(|x| x.as_array()).ok_or("no announced list")? {
        p.announced.push(item_string(it)?);
    }
    if let Some(w) = v.get("withdrawn") {
        for it in w.as_array().ok_or("withdrawn not a list")? { p.withdrawn.push(item_string(it)?); }
    }
    else if !p.reset { return Err("delta without withdrawn list".into()) }
    Ok(p)
}

pub fn model_items(m: &Model) -> BTreeSet<String> {
    let mut s = BTreeSet::new();
    for o in &m.origins { s.insert(fmt_origin(o)); }
    for k in &m.keys { s.insert(fmt_key(k)); }
    for (c, p) in &m.aspas { s.insert(format!("aspa {} {}", c, fmt_prov(p))); }
    s
}

/// Expected announced / withdrawn item strings between two versions.
pub fn expected_delta(old: &Model, new: &Model) -> (BTreeSet<String>, BTreeSet<String>) {
    let mut ann = BTreeSet::new();
    let mut wd = BTreeSet::new();
    for o in new.origins.difference(&old.origins) { ann.insert(fmt_origin(o)); }
    for o in old.origins.difference(&new.origins) { wd.insert(fmt_origin(o)); }
    for k in new.keys.difference(&old.keys) { ann.insert(fmt_key(k)); }
    for k in old.keys.difference(&new.keys) { wd.insert(fmt_key(k)); }
    for (c, p) in &new.aspas {
        if old.aspas.get(c) != Some(p) { ann.insert(format!("aspa {} {}", c, fmt_prov(p))); }
    }
    for c in old.aspas.keys() {
        if !new.aspas.contains_key(c) { wd.insert(format!("aspa {} *", c)); }
    }
    (ann, wd)
}

fn normalise_withdrawn(list: &[String]) -> Vec<String> {
    list.iter().map(|s| {
        if let Some(rest) = s.strip_prefix("aspa ") {
            let c = rest.split(' ').next().unwrap_or("");
            format!("aspa {} *", c)
        } else { s.clone() }
    }).collect()
}

fn boundary_class(body: &[u8], chunks: &[usize]) -> String {
    if chunks.len() < 2 { return "single-chunk".into() }
    let mut classes = Vec::new();
    let mut off = 0;
    for c in &chunks[..chunks.len() - 1] {
        off += c;
        let head = String::from_utf8_lossy(&body[off..(off + 24).min(body.len())]).into_owned();
        let cls = if head.starts_with(",\n") { "between-items" }
            else if head.starts_with("\n  ],\n  \"withdrawn\"") { "before-separator" }
            else if head.starts_with("\n  ]\n}") { "before-footer" }
            else if head.starts_with("\n    {") || head.starts_with("\n  {") { "first-item-of-list" }
            else { "other" };
        classes.push(cls);
    }
    classes.sort(); classes.dedup();
    classes.join("+")
}

fn big_model(rng: &mut Rng, n_origins: usize, n_keys: usize, n_aspas: usize, salt: u32) -> Model {
    let mut m = Model::default();
    let mut i = 0u32;
    while m.origins.len() < n_origins {
        // ASN widths 1..10 digits vary the item's text size.
        let asn = match rng.usize(4) { 0 => rng.u32() % 10, 1 => 64500 + rng.u32() % 100, 2 => 4_200_000_000 + rng.u32() % 1000, _ => rng.u32() % 100000 };
        m.origins.insert(wide_origin(salt.wrapping_mul(100_000).wrapping_add(i), asn));
        i += 1;
    }
    for k in 0..n_keys { m.keys.insert(router_key(k as u32 + salt % 7)); }
    for a in 0..n_aspas {
        let np = rng.usize(41);
        let provs: Vec<Asn> = (0..np).map(|j| Asn::from_u32(70000 + j as u32 * 3 + salt % 5)).collect();
        let p = if np == 0 { providers(0) } else { rpki::rtr::pdu::ProviderAsns::try_from_iter(provs).unwrap() };
        m.aspas.insert(Asn::from_u32(80000 + a as u32), p);
    }
    m
}

fn run_c18(ctx: &mut Ctx, rep: &mut Report) {
    let hooks = Hooks::install();
    hooks.set_record(false);
    let mut rng = ctx.rng("c18");
    let mut srv = match TestServer::start(&ctx.scratch, |c| { c.history_size = 6; }) {
        Ok(s) => s,
        Err(e) => { rep.inconclusive(format!("could not start server: {e}")); return }
    };
    // Before the first update: 503.
    match http_get(srv.http_addr, "/json-delta") {
        Ok(r) if r.status == 503 => rep.count("initial_503_seen", 1),
        Ok(r) => rep.violation("C18/served-before-first-update", format!("status {} before first validation", r.status), json!({})),
        Err(e) => rep.inconclusive(format!("http error before first update: {e}")),
    }
    let rounds = ctx.tier.pick(40usize, 600);
    let mut versions: Vec<(u64, Model)> = Vec::new(); // (serial, model)
    let mut serial = 0u64;
    let mut first = true;
    for round in 0..rounds {
        if !ctx.time_left() { rep.note("time budget reached"); break }
        // Pick sizes: around the 64k boundaries (≈ 64000/137 items per chunk).
        let per_chunk = 455usize;
        let n_origins = match rng.usize(6) {
            0 => rng.usize(4),
            1 => per_chunk - 25 + rng.usize(50),
            2 => 2 * per_chunk - 40 + rng.usize(80),
            3 => per_chunk + rng.usize(per_chunk),
            4 => rng.usize(60),
            _ => per_chunk - 12 + ((ctx.shard * rounds + round) % 24),
        };
        let n_keys = [0usize, 0, 3, 20][rng.usize(4)];
        let n_aspas = [0usize, 0, 2, 12][rng.usize(4)];
        let prev = versions.last().map(|v| v.1.clone()).unwrap_or_default();
        let next = match rng.usize(5) {
            0 if !first => { // superset: withdraw list empty
                let mut m = prev.clone();
                let add = big_model(&mut rng, n_origins, n_keys, n_aspas, round as u32 + 1 + ctx.shard as u32 * 131);
                m.origins.extend(add.origins); m.keys.extend(add.keys); m.aspas.extend(add.aspas);
                m
            }
            1 if !first => { // subset: announce list empty
                let mut m = prev.clone();
                let keep = rng.usize(3);
                let mut i = 0; m.origins.retain(|_| { i += 1; i % 3 < keep });
                if rng.bool() { m.keys.clear() }
                if rng.bool() { let c = m.aspas.keys().next().cloned(); if let Some(c) = c { m.aspas.remove(&c); } }
                if m == prev { m.origins.clear(); m.keys.clear(); m.aspas.clear(); }
                m
            }
            _ => big_model(&mut rng, n_origins, n_keys, n_aspas, round as u32 + 1 + ctx.shard as u32 * 131),
        };
        let changed = first || next != prev;
        ctx.begin_case(&json!({"round": round, "origins": next.origins.len(), "keys": next.keys.len(), "aspas": next.aspas.len()}));
        if srv.install(&hooks, &next).is_err() { rep.inconclusive("server update failed"); return }
        if changed && !first { serial += 1 }
        first = false;
        if changed { versions.push((serial, next.clone())); }
        let (session, cur_serial) = { let h = srv.history.read(); (h.session(), u32::from(h.serial()) as u64) };
        if cur_serial != serial { rep.inconclusive(format!("serial bookkeeping: server {cur_serial}, harness {serial}")); return }
        let current = versions.last().unwrap().1.clone();
        // Reset document.
        let mut targets = vec![("reset".to_string(), "/json-delta".to_string(), None)];
        for (s, m) in versions.iter().rev().take(6) {
            targets.push(("delta".to_string(), format!("/json-delta?session={session}&serial={s}"), Some((*s, m.clone()))));
        }
        targets.push(("foreign".to_string(), format!("/json-delta?session={}&serial={}", session + 1, serial), None));
        // Foreign sessions that agree with the current one in their low 16 or low 32 bits (the RTR session id is the
        // low 16 bits of the session): still foreign, so still a reset - asked with the current and an earlier serial.
        for off in [1u64 << 16, 1u64 << 32, 3u64 << 16] {
            let foreign = session.wrapping_add(off);
            targets.push(("foreign".to_string(), format!("/json-delta?session={foreign}&serial={serial}"), None));
            if let Some((s, _)) = versions.iter().rev().nth(1) {
                targets.push(("foreign".to_string(), format!("/json-delta?session={foreign}&serial={s}"), None));
            }
        }
        for (kind, target, from) in targets {
            rep.eval();
            let resp = match http_get(srv.http_addr, &target) {
                Ok(r) => r,
                Err(e) => { rep.inconclusive(format!("http error: {e}")); continue }
            };
            let replay = json!({"target": target, "round": round, "sizes": [current.origins.len(), current.keys.len(), current.aspas.len()],
                "seed_shard": [ctx.seed, ctx.shard]});
            if resp.status != 200 {
                rep.violation("C18/status", format!("{target}: status {}", resp.status), replay); continue
            }
            let parsed = match parse_delta(&resp.body) {
                Ok(p) => p,
                Err(e) => {
                    let sig = if e.contains("not valid JSON") { "C18/invalid-json" } else if e.contains("trailing") { "C18/trailing-data" } else { "C18/malformed-document" };
                    rep.violation(sig, format!("{target}: {e}; body head: {}", String::from_utf8_lossy(&resp.body[..resp.body.len().min(300)])), replay);
                    continue
                }
            };
            if parsed.session != session.to_string() || parsed.serial != serial {
                rep.violation("C18/session-serial", format!("{target}: document says session {} serial {}, current is {session}/{serial}", parsed.session, parsed.serial), replay.clone());
            }
            let dup = |l: &Vec<String>| { let s: BTreeSet<_> = l.iter().collect(); s.len() != l.len() };
            if dup(&parsed.announced) || dup(&parsed.withdrawn) {
                rep.violation("C18/duplicate-items", format!("{target}: an item is listed more than once"), replay.clone());
            }
            let ann: BTreeSet<String> = parsed.announced.iter().cloned().collect();
            let wd: BTreeSet<String> = normalise_withdrawn(&parsed.withdrawn).into_iter().collect();
            let types = format!("o{}k{}a{}", (!current.origins.is_empty()) as u8, (!current.keys.is_empty()) as u8, (!current.aspas.is_empty()) as u8);
            match (&from, parsed.reset) {
                (Some((fs, old)), false) => {
                    if parsed.from_serial != Some(*fs) {
                        rep.violation("C18/from-serial", format!("{target}: fromSerial {:?}", parsed.from_serial), replay.clone());
                    }
                    let (ea, ew) = expected_delta(old, &current);
                    if ann != ea || wd != ew {
                        let miss_a: Vec<_> = ea.difference(&ann).take(3).collect();
                        let extra_a: Vec<_> = ann.difference(&ea).take(3).collect();
                        let miss_w: Vec<_> = ew.difference(&wd).take(3).collect();
                        let extra_w: Vec<_> = wd.difference(&ew).take(3).collect();
                        rep.violation("C18/delta-items", format!(
                            "{target}: lists differ from change set: announced missing {:?} extra {:?}; withdrawn missing {:?} extra {:?}",
                            miss_a, extra_a, miss_w, extra_w), replay.clone());
                    }
                    rep.class(format!("delta|{}|ea{}|ew{}|{}", boundary_class(&resp.body, &resp.chunks), ea.is_empty() as u8, ew.is_empty() as u8, types));
                }
                (_, true) => {
                    // A reset is always acceptable for a delta request the server cannot serve
                    // (C13 decides when it must not be); its content must be the current data set.
                    let exp = model_items(&current);
                    if ann != exp || !parsed.withdrawn.is_empty() {
                        let miss: Vec<_> = exp.difference(&ann).take(3).collect();
                        let extra: Vec<_> = ann.difference(&exp).take(3).collect();
                        rep.violation("C18/reset-items", format!("{target}: reset lists differ from data set: missing {:?} extra {:?}", miss, extra), replay.clone());
                    }
                    if kind == "delta" { rep.count("delta_requests_answered_with_reset", 1); }
                    rep.class(format!("reset|{}|e{}|{}", boundary_class(&resp.body, &resp.chunks), exp.is_empty() as u8, types));
                }
                (None, false) => {
                    rep.violation("C18/unexpected-delta", format!("{target}: got a delta document for a {kind} request"), replay.clone());
                }
            }
            rep.max("max_body_bytes", resp.body.len() as u64);
            rep.max("max_chunks", resp.chunks.len() as u64);
            if rep.samples.len() < 3 && resp.chunks.len() >= 2 {
                rep.sample(json!({"target": target, "status": resp.status, "chunks": resp.chunks, "announced": parsed.announced.len(), "withdrawn": parsed.withdrawn.len()}));
            }
        }
    }
    Hooks::uninstall();
}
