//! C23: a crash at any point of a validation run never corrupts the store or
//! blocks later runs. The real `routinator vrps` runs in a subprocess and
//! kills itself at numbered file-system steps of the store / status
//! bookkeeping; the commands that follow must keep working and produce the
//! data set of a run that was never interrupted.

use std::collections::{BTreeMap, BTreeSet};
use std::path::Path;
use std::process::{Command, Stdio};
use std::time::{Duration, Instant};
use serde_json::{json, Value};
use crate::core::{Check, Ctx, Report};
use crate::world::build::Builder;
use crate::world::oracle::*;
use crate::world::run::Env;
use crate::world::spec::*;
use super::hist::{evolve, Emphasis};

pub const C23: Check = Check {
    id: "C23",
    level: "fault_enumeration",
    rule: "generated repositories (fake rsync) in two versions v1 -> v2 (new manifests and objects, incomplete / invalid points, \
           unreachable modules, so that updates, rejections and never-fetched markers are all written). `routinator vrps` (real \
           main) primes the cache at v1 (one case in three starts from an empty cache instead); a dry run at v2 on a copy of that cache lists the K numbered kill points (every create, \
           write, truncate, persist/rename, remove step of the store, the status file and utils::fatal) and yields the reference \
           output; then the cache is restored and the v2 run kills itself (SIGKILL) at point n (quick: up to 12 per case incl. the \
           first and last occurrence of every kind of step; thorough: every n). Afterwards, on the crashed cache: (a) `vrps \
           --update-after` must exit 0 and each CA's payload must be that CA's v1 or v2 payload; (b) `update` must exit 0; (c) a \
           full `vrps` must exit 0 with exactly the reference output; (d) `vrps --noupdate` must then reproduce it from the store. \
           distinct = (kind of step killed at, outcome of (a), world shape) classes",
    assumptions: &["process kill only: completed write()/rename() calls are durable, user-space buffers are lost; power-failure reordering is out of reach",
                   "kill points are in routinator's own code; the rsync child is not interrupted"],
    shards: |_| 16,
    watchdog: |t| Duration::from_secs(t.pick(900, 7200)),
    budget: |t| Duration::from_secs(t.pick(70, 600)),
    run: run_c23,
    crash_is_violation: false,
    finish: Some(finish_c23),
};

struct CmdOut { code: Option<i32>, killed: bool, timeout: bool, stderr: String, kill_points: Vec<String> }

fn routinator(dir: &Path, conf: &Path, args: &[&str], kill_at: Option<u64>, log_points: bool) -> CmdOut {
    use std::os::unix::process::ExitStatusExt;
    let klog = dir.join("kill.log");
    let _ = std::fs::remove_file(&klog);
    let mut c = Command::new(std::env::current_exe().unwrap());
    c.arg("routinator").arg("-c").arg(conf).args(args).env("HOME", dir).stdin(Stdio::null()).stdout(Stdio::null()).stderr(Stdio::piped());
    if let Some(n) = kill_at { c.env("RV_KILL_AT", n.to_string()); }
    if log_points || kill_at.is_some() { c.env("RV_KILL_LOG", &klog); }
    let mut child = c.spawn().expect("spawn routinator");
    let start = Instant::now();
    let mut timeout = false;
    loop {
        match child.try_wait() { Ok(Some(_)) => break, Ok(None) => {}, Err(_) => break }
        if start.elapsed() > Duration::from_secs(120) { let _ = child.kill(); timeout = true; break }
        std::thread::sleep(Duration::from_millis(3));
    }
    let out = child.wait_with_output().expect("wait");
    let kill_points = std::fs::read_to_string(&klog).unwrap_or_default().lines().map(|l| l.split('\t').nth(1).unwrap_or("").to_string()).collect();
    CmdOut { code: out.status.code(), killed: out.status.signal() == Some(libc::SIGKILL) && !timeout, timeout, stderr: String::from_utf8_lossy(&out.stderr).chars().take(600).collect(), kill_points }
}

/// Canonical items of a `vrps -f json` output file.
fn read_output(path: &Path) -> Result<BTreeSet<String>, String> {
    let data = std::fs::read(path).map_err(|e| format!("no output file: {e}"))?;
    let v: Value = serde_json::from_slice(&data).map_err(|e| format!("output is not JSON: {e}"))?;
    let mut out = BTreeSet::new();
    for r in v.get("roas").and_then(|x| x.as_array()).ok_or("no roas member")? {
        out.insert(format!("roa {} {}-{}", r["asn"].as_str().unwrap_or("?"), r["prefix"].as_str().unwrap_or("?"), r["maxLength"]));
    }
    for k in v.get("routerKeys").and_then(|x| x.as_array()).map(|a| a.as_slice()).unwrap_or(&[]) {
        out.insert(format!("key {} {} {}", k["asn"].as_str().unwrap_or("?"), k["SKI"].as_str().unwrap_or("?"), k["routerPublicKey"].as_str().unwrap_or("?")));
    }
    for a in v.get("aspas").and_then(|x| x.as_array()).map(|a| a.as_slice()).unwrap_or(&[]) {
        out.insert(format!("aspa {} {}", a["customer"].as_str().unwrap_or("?"), a["providers"]));
    }
    Ok(out)
}

fn item_block(item: &str) -> Option<usize> {
    // the first AS number in the item names the publishing CA (generator's AS block scheme)
    let pos = item.find("AS")?;
    let digits: String = item[pos + 2..].chars().take_while(|c| c.is_ascii_digit()).collect();
    asn_block(digits.parse().ok()?)
}

/// Per-CA view. Only route origins are attributed: the generator gives every ROA an origin AS from its issuing CA's
/// own block, whereas ASPAs and router certificates may name ASes of a descendant's block.
fn by_ca(items: &BTreeSet<String>) -> BTreeMap<usize, BTreeSet<String>> {
    let mut m: BTreeMap<usize, BTreeSet<String>> = BTreeMap::new();
    for i in items.iter().filter(|i| i.starts_with("roa ")) { if let Some(b) = item_block(i) { m.entry(b).or_default().insert(i.clone()); } }
    m
}

fn copy_dir(from: &Path, to: &Path) {
    let _ = std::fs::remove_dir_all(to);
    std::fs::create_dir_all(to).unwrap();
    if let Ok(rd) = std::fs::read_dir(from) {
        for e in rd.flatten() {
            let p = e.path(); let t = to.join(e.file_name());
            if p.is_dir() { copy_dir(&p, &t) } else { let _ = std::fs::copy(&p, &t); }
        }
    }
}

fn run_c23(ctx: &mut Ctx, rep: &mut Report) {
    let mut rng = ctx.rng("c23");
    let mut b = match Builder::new() { Ok(b) => b, Err(e) => { rep.inconclusive(e); return } };
    let cases = ctx.tier.pick(2usize, 30);
    for case in 0..cases {
        if !ctx.time_left() { rep.note("time budget reached"); break }
        let params = GenParams { tals: 1 + rng.usize(2), max_cas: 3 + rng.usize(4), max_depth: 1 + rng.usize(2), max_objects: 1 + rng.usize(3), repos: 1 + rng.usize(2), ..GenParams::default() };
        let base = generate(&mut rng, chrono::Utc::now().timestamp(), &params);
        let em = *rng.pick(&[Emphasis::Mixed, Emphasis::Incomplete, Emphasis::FetchFaults, Emphasis::Mixed]);
        // v1 already carries faults (points that never validate leave "never fetched" markers that are rewritten later);
        // v2 additionally has a CA that did not exist before (its stored point is created during the interrupted run)
        let v0 = evolve(&base, 0, &mut rng, em);
        let v1 = evolve(&v0, 1, &mut rng, em);
        let mut v2 = evolve(&v1, 2, &mut rng, em);
        if rng.chance(2, 3) { let parent = rng.usize(v2.cas.len()); if v2.cas[parent].alias_of.is_none() { let repo = v2.cas[parent].repo; add_child(&mut v2, &mut rng, parent, repo, 2); } }
        let fresh = rng.chance(1, 3);
        let env = {
            let mut env = Env::new(&ctx.scratch.join("c23"));
            env.config.validation_threads = 1;          // deterministic order of the store's steps
            env.config.stale = routinator::config::FilterPolicy::Reject;
            env
        };
        let conf = env.dir.join("routinator.conf");
        std::fs::write(&conf, env.config.to_toml().to_string()).unwrap();
        let cache = env.config.cache_dir.clone();
        let saved = ctx.scratch.join("c23-saved");
        let out_file = env.dir.join("out.json");
        let out_s = out_file.display().to_string();
        let vrps_args: Vec<&str> = vec!["vrps", "-f", "json", "-o", &out_s];
        // --- prime at v1 (unless the interrupted run is the very first one on an empty cache)
        let r1 = if fresh { BTreeSet::new() } else {
            env.serve(&b.publish(&v1));
            let o = routinator(&env.dir, &conf, &vrps_args, None, false);
            if o.code != Some(0) { rep.inconclusive(format!("priming run exited {:?}: {}", o.code, o.stderr)); continue }
            match read_output(&out_file) { Ok(r) => r, Err(e) => { rep.inconclusive(format!("priming output: {e}")); continue } }
        };
        copy_dir(&cache, &saved);
        // --- dry run at v2: reference output and kill points
        env.serve(&b.publish(&v2));
        let dry = routinator(&env.dir, &conf, &vrps_args, None, true);
        if dry.code != Some(0) { rep.inconclusive(format!("reference run exited {:?}: {}", dry.code, dry.stderr)); continue }
        let r2 = match read_output(&out_file) { Ok(r) => r, Err(e) => { rep.inconclusive(format!("reference output: {e}")); continue } };
        let k = dry.kill_points.len() as u64;
        rep.max("max_kill_points_in_one_run", k);
        if k == 0 { rep.inconclusive("no kill point reached"); continue }
        let (r1_ca, r2_ca) = (by_ca(&r1), by_ca(&r2));
        let picks: Vec<u64> = if ctx.tier.pick(true, false) && k > 12 {
            let mut v: Vec<u64> = vec![1, k];
            let mut names: Vec<&String> = dry.kill_points.iter().collect(); names.sort(); names.dedup();
            for name in names {
                if let Some(i) = dry.kill_points.iter().position(|p| p == name) { if !v.contains(&(i as u64 + 1)) { v.push(i as u64 + 1) } }
                if let Some(i) = dry.kill_points.iter().rposition(|p| p == name) { if !v.contains(&(i as u64 + 1)) { v.push(i as u64 + 1) } }
            }
            while v.len() < 12 { let n = 1 + rng.below(k); if !v.contains(&n) { v.push(n) } }
            v.sort(); v
        } else { (1..=k).collect() };
        for n in picks {
            if !ctx.time_left() { rep.note("time budget reached"); break }
            copy_dir(&saved, &cache);
            let _ = std::fs::remove_file(&out_file);
            ctx.begin_case(&json!({"case": case, "kill_at": n, "of": k}));
            let killed = routinator(&env.dir, &conf, &vrps_args, Some(n), true);
            rep.eval();
            if !killed.killed {
                // the engine processes manifest entries in random order, so an update that is abandoned at a missing
                // file writes a varying number of objects first: this run simply had fewer steps than the dry run
                if killed.code == Some(0) && (killed.kill_points.len() as u64) < n { rep.count("kill_point_beyond_this_runs_steps", 1); }
                else { rep.inconclusive(format!("run was not killed at point {n}/{k} (exit {:?}, {} steps)", killed.code, killed.kill_points.len())); }
                continue
            }
            let point = dry.kill_points.get(n as usize - 1).cloned().unwrap_or_default();
            rep.count(&format!("kills_at_{point}"), 1);
            let replay = json!({"v1": v1, "v2": v2, "kill_at": n, "of": k, "point": point, "seed": ctx.seed, "shard": ctx.shard, "case": case});
            // (a) vrps --update-after: must work; per CA old or new
            let _ = std::fs::remove_file(&out_file);
            let mut a_args = vrps_args.clone(); a_args.extend(["--update-after", "100000"]);
            let a = routinator(&env.dir, &conf, &a_args, None, false);
            let a_class;
            if a.timeout { rep.inconclusive("vrps --update-after: watchdog"); a_class = "timeout".to_string(); }
            else if a.code != Some(0) {
                a_class = format!("exit{:?}", a.code);
                rep.violation(format!("C23/update-after-fails-after-crash/{point}"), format!(
                    "run killed at step {n}/{k} ({point}); 'vrps --update-after' then exits {:?}: {}", a.code, a.stderr.lines().last().unwrap_or("")), replay.clone());
            } else {
                match read_output(&out_file) {
                    Err(e) => { a_class = "bad-output".into(); rep.violation(format!("C23/update-after-bad-output/{point}"), format!("killed at {n}/{k} ({point}); vrps --update-after: {e}"), replay.clone()); }
                    Ok(items) => {
                        let got = by_ca(&items);
                        let mut mixed = Vec::new();
                        let cas: BTreeSet<usize> = got.keys().chain(r1_ca.keys()).chain(r2_ca.keys()).cloned().collect();
                        for ca in cas {
                            let g = got.get(&ca).cloned().unwrap_or_default();
                            let old = r1_ca.get(&ca).cloned().unwrap_or_default();
                            let new = r2_ca.get(&ca).cloned().unwrap_or_default();
                            if g != old && g != new { mixed.push(format!("CA {ca}: {} items, v1 has {}, v2 has {}", g.len(), old.len(), new.len())); }
                        }
                        // ASPAs and router keys: each must come from the old or the new data set
                        let foreign: Vec<&String> = items.iter().filter(|i| !i.starts_with("roa ") && !r1.contains(*i) && !r2.contains(*i)).take(3).collect();
                        if !foreign.is_empty() { mixed.push(format!("items in neither version: {:?}", foreign)); }
                        a_class = if items == r2 { "new".into() } else if items == r1 { "old".into() } else { "per-ca-mix".into() };
                        if !mixed.is_empty() {
                            rep.violation(format!("C23/stored-point-neither-old-nor-new/{point}"), format!(
                                "run killed at step {n}/{k} ({point}); afterwards the payload of {} is neither its previous nor its new complete version", mixed.join("; ")), replay.clone());
                        }
                    }
                }
            }
            // (b) update
            let u = routinator(&env.dir, &conf, &["update"], None, false);
            if u.timeout { rep.inconclusive("update: watchdog"); }
            else if u.code != Some(0) {
                rep.violation(format!("C23/update-fails-after-crash/{point}"), format!("run killed at step {n}/{k} ({point}); 'update' then exits {:?}: {}", u.code, u.stderr.lines().last().unwrap_or("")), replay.clone());
            }
            // (c) full vrps: same data set as the uninterrupted run
            let _ = std::fs::remove_file(&out_file);
            let f = routinator(&env.dir, &conf, &vrps_args, None, false);
            if f.timeout { rep.inconclusive("vrps: watchdog"); }
            else if f.code != Some(0) {
                rep.violation(format!("C23/next-run-fails-after-crash/{point}"), format!("run killed at step {n}/{k} ({point}); the next 'vrps' exits {:?}: {}", f.code, f.stderr.lines().last().unwrap_or("")), replay.clone());
            } else {
                match read_output(&out_file) {
                    Err(e) => rep.violation(format!("C23/next-run-bad-output/{point}"), format!("killed at {n}/{k} ({point}); next vrps: {e}"), replay.clone()),
                    Ok(items) => {
                        if items != r2 {
                            let missing: Vec<&String> = r2.difference(&items).take(3).collect();
                            let surplus: Vec<&String> = items.difference(&r2).take(3).collect();
                            rep.violation(format!("C23/data-set-differs-after-crash/{point}"), format!(
                                "run killed at step {n}/{k} ({point}); the next full run yields a different data set than the uninterrupted run: missing {:?} surplus {:?}", missing, surplus), replay.clone());
                        } else { rep.count("next_run_equal_to_uninterrupted", 1); }
                    }
                }
                // (d) and the store now reproduces it without fetching
                let _ = std::fs::remove_file(&out_file);
                let mut d_args = vrps_args.clone(); d_args.push("--noupdate");
                let d = routinator(&env.dir, &conf, &d_args, None, false);
                if d.code != Some(0) && !d.timeout {
                    rep.violation(format!("C23/noupdate-fails-after-recovery/{point}"), format!("killed at {n}/{k} ({point}); after a full run 'vrps --noupdate' exits {:?}: {}", d.code, d.stderr.lines().last().unwrap_or("")), replay.clone());
                } else if let Ok(items) = read_output(&out_file) {
                    if items != r2 { rep.violation(format!("C23/store-differs-after-recovery/{point}"), format!("killed at {n}/{k} ({point}); after a full run the store yields a different data set than the run"), replay.clone()); }
                }
            }
            rep.class(format!("{point}|a:{a_class}|fresh{}|cas{}|v1={}v2={}", fresh as u8, v2.cas.len().min(6), r1.len().min(9) / 3, r2.len().min(9) / 3));
            if rep.samples.len() < 2 { rep.sample(json!({"kill_point": point, "n": n, "of": k, "update_after_outcome": a_class, "reference_items": r2.len()})); }
        }
    }
}

fn finish_c23(_t: crate::core::Tier, rep: &mut Report) {
    if rep.counters.get("next_run_equal_to_uninterrupted").copied().unwrap_or(0) == 0 && rep.violations.is_empty() {
        rep.inconclusive("no crashed run was followed by a judged run"); rep.count("inconclusive_fatal", 1);
    }
}
