//! C30: remote URIs map to confined, distinct local paths. Every place where
//! routinator derives a local path from a URI reports (kind, URI, path)
//! through a hook; the monitor checks confinement and injectivity over
//! everything reported while the real code handles hostile URIs.

use std::collections::{BTreeMap, BTreeSet};
use std::path::{Component, Path, PathBuf};
use std::str::FromStr;
use std::time::Duration;
use serde_json::json;
use routinator::slurm::LocalExceptions;
use rpki::repository::tal::TalUri;
use rpki::uri;
use crate::core::{Check, Ctx, Report, Rng};
use crate::hooks::Hooks;
use crate::net::https::FakeHttps;
use crate::world::build::Builder;
use crate::world::oracle::*;
use crate::world::rrdpserve::RrdpServers;
use crate::world::run::Env;
use crate::world::spec::*;

pub const C30: Check = Check {
    id: "C30",
    level: "exploration",
    rule: "hook 'path.map' reports (kind, URI, path) wherever a local path is derived from a URI (store TA files, stored points, \
           store RRDP repository directories, rsync module and file copies, RRDP archives, dump directories and dumped objects). \
           Leg A drives those sites directly through public entry points (Store::update_ta/load_ta, Collector::load_ta with the \
           fake rsync, the RRDP collector's load_repository against the fake) with families of syntactically valid URIs built to \
           nearly collide: hosts differing in case only, hosts/modules/segments made of dots, percent-escapes, sub-delims, deep \
           paths (40 segments), 250-character segments, file vs directory forms. Leg B runs the real engine and `dump` on worlds \
           whose hosts, module/directory names and object names come from the same pools (rsync and RRDP). Oracle: every reported \
           path is lexically inside the cache (or dump) directory, has no '..' component and is not a symlink target outside; two \
           reports with the same path must be for equivalent URIs (scheme and authority compared case-insensitively, rest exactly) \
           of the same kind; written trust anchors read back with their own content; after the run no file exists outside the \
           directories given to routinator. distinct = (kind, URI shape) classes",
    assumptions: &["URIs that rpki's parser rejects cannot reach these sites and are skipped (counted)",
                   "equivalent URIs may map to different files (the RRDP archive name hashes the URI as written)"],
    shards: |_| 8,
    watchdog: |t| Duration::from_secs(t.pick(600, 3600)),
    budget: |t| Duration::from_secs(t.pick(45, 300)),
    run: run_c30,
    crash_is_violation: true,
    finish: None,
};

const HOSTS: &[&str] = &["h.test", "H.test", "h.TEST", "h.test.", "h..test", "...", "h~1", "h_1", "h!", "h$a", "h%2f", "h%2F", "h'", "(h)", "h*", "h+", "h,1", "-h", "h;a", "h=a", "a.b", "a-1", "a", "h.test:873", "rsync", "rrdp", "tmp", "ta"];
const MODULES: &[&str] = &["m", "M", "m.", "m..", "...", "%2e%2e", "%2E%2E", "m;x", "m=1", "m%2fn", "m%2Fn", "~", "tmp", "rsync"];
const PATHS: &[&str] = &["a.cer", "A.cer", "a/b.cer", "a%2fb.cer", "a%2Fb.cer", "...", ".../x.cer", "%2e%2e/x.cer", "%2e%2e/%2e%2e/%2e%2e/etc/passwd", "~", "~root/x", "a;b=c", "x:y", "a.cer/", "a/", "",
    "con", "nul.cer", "$HOME/x", "a&b", "a'b", "(a)", "a*", "a+b", "a,b", "a!b", "-rf", "--delete"];

fn deep_path(n: usize) -> String { (0..n).map(|i| format!("d{i}")).collect::<Vec<_>>().join("/") + "/x.cer" }

/// Canonical form deciding equivalence: scheme and authority lower-cased, rest untouched.
fn canon(u: &str) -> String {
    match u.find("://") {
        Some(i) => { let rest = &u[i + 3..]; let (auth, tail) = match rest.find('/') { Some(j) => (&rest[..j], &rest[j..]), None => (rest, "") }; format!("{}://{}{}", u[..i].to_ascii_lowercase(), auth.to_ascii_lowercase(), tail) }
        None => u.to_string(),
    }
}

fn canon_key(kind: &str, detail: &str) -> String {
    // detail may hold "<a> <b>" (repository identity + URI)
    let parts: Vec<String> = detail.split(' ').map(canon).collect();
    format!("{kind}|{}", parts.join(" "))
}

fn lexically_inside(path: &Path, base: &Path) -> bool {
    path.is_absolute() && path.starts_with(base) && !path.components().any(|c| matches!(c, Component::ParentDir))
}

struct Monitor { by_path: BTreeMap<PathBuf, (String, String)>, reports: u64 }

impl Monitor {
    fn new() -> Self { Monitor { by_path: BTreeMap::new(), reports: 0 } }

    /// Judges the path.map events gathered since the last call.
    fn absorb(&mut self, hooks: &Hooks, cache: &Path, dump: Option<&Path>, rep: &mut Report, leg: &str) {
        for e in hooks.take_events() {
            if e.name != "path.map" { continue }
            let mut f = e.detail.splitn(3, '\t');
            let (kind, uridetail, path) = (f.next().unwrap_or(""), f.next().unwrap_or(""), f.next().unwrap_or(""));
            self.reports += 1;
            rep.eval();
            rep.count(&format!("reports_{kind}"), 1);
            let p = PathBuf::from(path);
            let base: &Path = if kind.starts_with("dump-") { dump.unwrap_or(cache) } else { cache };
            let replay = json!({"leg": leg, "kind": kind, "uri": uridetail, "path": path, "base": base.display().to_string()});
            if !lexically_inside(&p, base) {
                rep.violation(format!("C30/path-outside-directory/{kind}"), format!("{kind}: URI {uridetail} maps to {path}, which is not inside {}", base.display()), replay.clone());
            }
            // physical check where the parent exists
            if let Some(parent) = p.parent() { if let (Ok(real), Ok(rb)) = (parent.canonicalize(), base.canonicalize()) { if !real.starts_with(&rb) {
                rep.violation(format!("C30/path-resolves-outside-directory/{kind}"), format!("{kind}: URI {uridetail} maps to {path}, whose directory resolves to {} outside {}", real.display(), rb.display()), replay.clone());
            } } }
            // The rsync working directory mirrors the remote tree: the module directory is the copy of the module URI,
            // and a URI with and without trailing slash names the same node of that tree.
            let class = if kind == "rsync-module" || kind == "rsync-file" { "rsync-copy" } else { kind };
            let udet = if kind.starts_with("dump-") { uridetail.splitn(2, ' ').nth(1).unwrap_or(uridetail) } else { uridetail };
            let key = if class == "rsync-copy" { canon_key(class, udet.trim_end_matches('/')) } else { canon_key(class, udet) };
            // dumps go to a directory chosen per dump; keep them apart per base
            let pkey = p.clone();
            // Dump directories: one per repository (that is what the registry's numbering is for), and none may be the
            // directory of the rsync-fetched data. Keyed per dump base so that separate dumps do not interfere.
            match self.by_path.get(&pkey) {
                Some((k, u)) if *k != key => {
                    rep.violation(format!("C30/shared-path/{kind}"), format!("{path} is used both for {u} and for {uridetail}, which are not equivalent"), json!({"leg": leg, "path": path, "first": u, "second": uridetail, "kind": kind}));
                }
                Some(_) => {}
                None => { self.by_path.insert(pkey, (key, uridetail.to_string())); }
            }
            let shape = if uridetail.contains("%2") { "pct" } else if uridetail.contains("...") || uridetail.contains("..") { "dots" } else if uridetail.len() > 300 { "long" } else if uridetail.chars().any(|c| c.is_ascii_uppercase()) { "upper" } else if uridetail.chars().any(|c| "!$&'()*+,;=~".contains(c)) { "subdelim" } else { "plain" };
            rep.class(format!("{leg}|{kind}|{shape}"));
        }
    }
}

/// All regular files below `dir` (relative paths).
fn walk(dir: &Path, out: &mut BTreeSet<PathBuf>) {
    if let Ok(rd) = std::fs::read_dir(dir) { for e in rd.flatten() { let p = e.path(); if p.is_dir() && !p.is_symlink() { walk(&p, out) } else { out.insert(p); } } }
}

fn run_c30(ctx: &mut Ctx, rep: &mut Report) {
    let hooks = Hooks::install();
    let mut rng = ctx.rng("c30");
    let fake = match FakeHttps::start() { Ok(f) => f, Err(e) => { rep.inconclusive(format!("fake https: {e}")); return } };
    let mut paths: Vec<String> = PATHS.iter().map(|s| s.to_string()).collect();
    paths.push(deep_path(40));
    paths.push(format!("{}/x.cer", "L".repeat(250)));
    paths.push(format!("{}.cer", "n".repeat(251)));

    // ---------------- Leg A: direct entry points
    {
        let env = Env::new(&ctx.scratch.join("c30a"));
        let mut config = env.config.clone();
        fake.clear();
        fake.configure(&mut config);
        let cache = config.cache_dir.clone();
        let before_outside = { let mut s = BTreeSet::new(); walk(&ctx.scratch, &mut s); s };
        let store = match routinator::store::Store::new(&config) { Ok(s) => s, Err(_) => { rep.inconclusive("store init"); return } };
        let mut mon = Monitor::new();
        let mut written: Vec<(TalUri, Vec<u8>)> = Vec::new();
        let mut counter = 0u64;
        let n_uris = ctx.tier.pick(700usize, 6000);
        let mut rsync_uris: Vec<uri::Rsync> = Vec::new();
        let mut https_uris: Vec<uri::Https> = Vec::new();
        // family members share all but one part, so that near-collisions are frequent
        for i in 0..n_uris {
            let h = HOSTS[(i + ctx.shard) % HOSTS.len()];
            let m = if rng.chance(1, 2) { MODULES[rng.usize(MODULES.len())] } else { "m" };
            let p = if rng.chance(2, 3) { paths[rng.usize(paths.len())].clone() } else { "a.cer".to_string() };
            match uri::Rsync::from_str(&format!("rsync://{h}/{m}/{p}")) { Ok(u) => rsync_uris.push(u), Err(_) => rep.count("uris_rejected_by_parser", 1) }
            let scheme = if rng.chance(1, 6) { "HTTPS" } else { "https" };
            match uri::Https::from_str(&format!("{scheme}://{h}/{m}/{p}")) { Ok(u) => https_uris.push(u), Err(_) => rep.count("uris_rejected_by_parser", 1) }
        }
        // pairs whose authority / module / path boundaries shift while the concatenated text stays the same
        for h in ["h.test", "a", "a.b"] {
            for (m1, p1, m2, p2) in [("ab", "c.cer", "a", "bc.cer"), ("repo", "ta/root.cer", "rep", "ota/root.cer"), ("m", "x/y.cer", "mx", "y.cer"), ("m", "a/b/c.cer", "m", "a/bc.cer")] {
                for (m, p) in [(m1, p1), (m2, p2)] {
                    if let Ok(u) = uri::Rsync::from_str(&format!("rsync://{h}/{m}/{p}")) { rsync_uris.push(u) }
                    if let Ok(u) = uri::Https::from_str(&format!("https://{h}/{m}/{p}")) { https_uris.push(u) }
                }
            }
        }
        for (a, b2) in [("ab.test", "c/x.cer"), ("a", "b.test/c/x.cer")] { if let Ok(u) = uri::Https::from_str(&format!("https://{a}/{b2}")) { https_uris.push(u) } }
        rsync_uris.sort_by(|a, b| a.as_str().cmp(b.as_str())); rsync_uris.dedup_by(|a, b| a.as_str() == b.as_str()); https_uris.sort_by(|a, b| a.as_str().cmp(b.as_str())); https_uris.dedup_by(|a, b| a.as_str() == b.as_str());
        // store: trust anchors
        let run = store.start();
        for u in rsync_uris.iter().map(|u| TalUri::Rsync(u.clone())).chain(https_uris.iter().map(|u| TalUri::Https(u.clone()))) {
            if !ctx.time_left() { break }
            counter += 1;
            let content = format!("content #{counter} for {}", canon(&u.to_string())).into_bytes();
            if run.update_ta(&u, &content).is_err() { rep.count("ta_writes_refused", 1); continue }
            written.push((u, content));
        }
        mon.absorb(&hooks, &cache, None, rep, "direct");
        // read back: each URI must yield the content last written for its equivalence class
        let mut last: BTreeMap<String, Vec<u8>> = BTreeMap::new();
        for (u, c) in &written { last.insert(format!("{}|{}", matches!(u, TalUri::Rsync(_)) as u8, canon(&u.to_string())), c.clone()); }
        for (u, _) in &written {
            rep.eval();
            let want = &last[&format!("{}|{}", matches!(u, TalUri::Rsync(_)) as u8, canon(&u.to_string()))];
            match run.load_ta(u) {
                Ok(Some(b)) if b.as_ref() == want.as_slice() => rep.count("ta_read_back_ok", 1),
                Ok(Some(b)) => rep.violation("C30/ta-file-shared", format!("trust anchor {u} reads back the content written for another URI: {}", String::from_utf8_lossy(&b[..b.len().min(120)])), json!({"uri": u.to_string()})),
                Ok(None) => rep.violation("C30/ta-file-lost", format!("trust anchor {u} was stored but cannot be loaded"), json!({"uri": u.to_string()})),
                Err(_) => rep.inconclusive("load_ta failed"),
            }
        }
        hooks.take_events();
        drop(run);
        // rsync collector: module and file paths (the fake rsync is invoked per module)
        config.disable_rrdp = true;
        if let Ok(mut coll) = routinator::collector::Collector::new(&config) {
            let _ = coll.ignite();
            let run = coll.start();
            let limit = ctx.tier.pick(250usize, 2500);
            for u in rsync_uris.iter().take(limit) { if !ctx.time_left() { break } let _ = run.load_ta(&TalUri::Rsync(u.clone())); }
            drop(run);
            mon.absorb(&hooks, &cache, None, rep, "direct");
        } else { rep.inconclusive("rsync collector init"); }
        // RRDP collector: archive paths
        config.disable_rrdp = false;
        if let Ok(Some(mut coll)) = routinator::collector::RrdpCollector::new(&config) {
            let _ = coll.ignite();
            let run = coll.start();
            let limit = ctx.tier.pick(120usize, 1500);
            for u in https_uris.iter().take(limit) { if !ctx.time_left() { break } let _ = run.load_repository(u); }
            drop(run);
            mon.absorb(&hooks, &cache, None, rep, "direct");
        } else { rep.inconclusive("rrdp collector init"); }
        // dump registry: several repositories per host, hosts that look like the registry's own numbering, a host that
        // is literally "rsync"
        {
            let dump_base = env.dir.join("dump/store");
            let mut reg = routinator::utils::dump::DumpRegistry::new(dump_base.clone());
            let _ = reg.get_repo_path(None);
            let mut extra: Vec<uri::Https> = Vec::new();
            for h in ["dup.test", "dup.test-1", "rsync", "rsync-1", "DUP.test"] { for p in ["a/n.xml", "b/n.xml", "c/n.xml", "d/n.xml"] { if let Ok(u) = uri::Https::from_str(&format!("https://{h}/{p}")) { extra.push(u) } } }
            for u in extra.iter().chain(https_uris.iter().take(ctx.tier.pick(300usize, 3000))) {
                let first = reg.get_repo_path(Some(u));
                let again = reg.get_repo_path(Some(u));
                rep.eval();
                if first != again { rep.violation("C30/dump-directory-not-stable", format!("{u} was given {} and then {}", first.display(), again.display()), json!({"uri": u.to_string()})); }
            }
            mon.absorb(&hooks, &cache, Some(&env.dir.join("dump")), rep, "direct");
        }
        // nothing may have appeared outside the directories handed to routinator
        let mut after = BTreeSet::new(); walk(&ctx.scratch, &mut after);
        for p in after.difference(&before_outside) {
            if !p.starts_with(&env.dir) { rep.violation("C30/file-created-outside", format!("file {} appeared outside the configured directories", p.display()), json!({"path": p.display().to_string()})); }
        }
        rep.count("path_reports_direct", mon.reports);
        rep.sample(json!({"leg": "direct", "rsync_uris": rsync_uris.len(), "https_uris": https_uris.len(), "distinct_paths": mon.by_path.len(), "example": rsync_uris.get(rsync_uris.len() / 2).map(|u| u.to_string())}));
    }

    // ---------------- Leg B: engine + dump on worlds with hostile names
    let mut b = match Builder::new() { Ok(b) => b, Err(e) => { rep.inconclusive(e); return } };
    let worlds = ctx.tier.pick(4usize, 60);
    for wi in 0..worlds {
        if !ctx.time_left() { rep.note("time budget reached"); break }
        let len = 2 + rng.usize(3);
        let mut w = gen_chain(&mut rng, chrono::Utc::now().timestamp(), len, 2);
        let mut used_dirs: BTreeSet<String> = BTreeSet::new();
        for c in 0..w.cas.len() {
            w.cas[c].repo = c;
            let host = HOSTS[rng.usize(HOSTS.len())];
            if uri::Rsync::from_str(&format!("rsync://{host}/m/")).is_ok() && !host.contains(':') { w.host_override.insert(c, host.to_string()); }
            let module = MODULES[rng.usize(MODULES.len())];
            let sub = *rng.pick(&["ca", "...", "%2e%2e", "CA", "c;a", "deep/er/and/deeper", "~"]);
            let dir = format!("{module}/{sub}{c}");
            if uri::Rsync::from_str(&format!("rsync://x/{dir}/")).is_ok() && used_dirs.insert(dir.to_ascii_lowercase()) { w.ca_dir_override.insert(c, dir); }
            w.cas[c].rrdp = c > 0 && rng.chance(1, 3);
            for (k, o) in w.cas[c].objects.iter_mut().enumerate() {
                if matches!(o.kind, ObjKind::ChildCa(_)) { continue }
                let ext = o.name.rsplit('.').next().unwrap_or("roa").to_string();
                // RFC 9286 restricts manifest file names to [a-zA-Z0-9_-]+ plus a three-letter extension
                let stem = *rng.pick(&["obj", "OBJ", "Obj", "o-o", "o_o", "-o", "_", "--", "0"]);
                o.name = format!("{stem}{k}.{ext}");
            }
        }
        let p = b.publish(&w);
        let mut env = Env::new(&ctx.scratch.join("c30b"));
        fake.clear();
        fake.configure(&mut env.config);
        env.config.allow_dubious_hosts = true;
        env.config.log_repository_issues = true;
        env.serve(&p);
        let mut servers = RrdpServers::default();
        servers.publish(&w, &p, &fake, &BTreeMap::new());
        hooks.take_events();
        ctx.begin_case(&json!({"leg": "engine", "world": wi}));
        crate::caplog::install(log::LevelFilter::Info); crate::caplog::clear();
        let dump_dir = env.dir.join("dump");
        let mut mon = Monitor::new();
        let out = {
            let mut engine = match routinator::engine::Engine::new(&env.config, true) { Ok(e) => e, Err(_) => { rep.inconclusive("engine init"); continue } };
            if engine.ignite().is_err() { rep.inconclusive("engine ignite"); continue }
            let res = routinator::payload::ValidationReport::process(&engine, &env.config, false);
            mon.absorb(&hooks, &env.config.cache_dir, None, rep, "engine");
            let _ = std::fs::create_dir_all(&dump_dir);
            if engine.dump(&dump_dir).is_err() { rep.note("dump failed"); }
            mon.absorb(&hooks, &env.config.cache_dir, Some(&dump_dir), rep, "dump");
            res
        };
        rep.eval();
        match out {
            Ok((report, mut metrics)) => {
                let snap = report.into_snapshot(&LocalExceptions::empty(), &mut metrics);
                let e = expect_fresh(&w, w.now, &Policy::default());
                let (su, mi) = compare(&e, &observe(&snap), &super::worlds::ec_hex(&b));
                // a path collision would lose or mix objects: the payload must still be the oracle's
                if !su.is_empty() || !mi.is_empty() { rep.violation("C30/payload-differs-with-hostile-names", format!("payload differs from the oracle on a world with unusual host / directory / object names: surplus {:?} missing {:?}; log {:?}", su.iter().take(2).collect::<Vec<_>>(), mi.iter().take(2).collect::<Vec<_>>(), crate::caplog::take().iter().filter(|l| l.0 <= log::Level::Warn).take(6).collect::<Vec<_>>()), json!({"world": w})); }
                else { rep.count("engine_worlds_with_expected_payload", 1); }
            }
            Err(_) => rep.violation("C30/run-fails-with-hostile-names", "the validation run failed on a world with unusual but valid host / directory / object names", json!({"world": w})),
        }
        // every file below the env dir must be in cache, dump, tals or the fake's control directory
        let mut files = BTreeSet::new(); walk(&env.dir, &mut files);
        for f in files { if !(f.starts_with(&env.config.cache_dir) || f.starts_with(&dump_dir) || f.starts_with(&env.ctrl) || f.starts_with(env.dir.join("tals"))) {
            rep.violation("C30/file-created-outside", format!("file {} appeared outside cache and dump directories", f.display()), json!({"world": w}));
        } }
        rep.count("path_reports_engine", mon.reports);
        if wi == 0 { rep.sample(json!({"leg": "engine+dump", "hosts": w.host_override, "dirs": w.ca_dir_override, "distinct_paths": mon.by_path.len()})); }
    }
    Hooks::uninstall();
}
