//! C06 (stale / premature policy on the fetch and the stored path, using the
//! virtual wall clock) and C40 (cleanup keeps everything still needed).

use std::collections::{BTreeMap, BTreeSet};
use std::time::Duration;
use serde_json::json;
use routinator::slurm::LocalExceptions;
use crate::core::{Check, Ctx, Report, Rng};
use crate::hooks::Hooks;
use crate::world::build::Builder;
use crate::world::history::{Decision, HistModel};
use crate::world::oracle::*;
use crate::world::run::{run_engine, Env};
use crate::world::spec::*;
use super::hist::{evolve, Emphasis};
use super::worlds::ec_hex;

pub const C06: Check = Check {
    id: "C06",
    level: "exploration",
    rule: "trees where a random subset of CAs has manifests and/or CRLs whose nextUpdate lies shortly after the first run, for each \
           stale policy, driven on both paths: stored path (objects valid when stored, then the virtual wall clock advances past \
           nextUpdate while the server withholds new data or keeps serving the same files) and fetch path (stale or premature \
           versions served to a later run). Oracle (history model, from the statement): under 'reject' a CA with a stale manifest \
           or CRL and all its descendants contribute nothing; under warn/accept they are processed normally; a fetched premature \
           manifest is never accepted. A short real-time variant (sleeping past a 3 s nextUpdate) guards against the clock shim \
           masking a defect. distinct = (policy, path, decision with reason) classes",
    assumptions: &["the virtual clock only moves CLOCK_REALTIME forward and only between runs; every other instant keeps at least 30 minutes distance from each run's clock"],
    shards: |_| 16,
    watchdog: |t| Duration::from_secs(t.pick(600, 3600)),
    budget: |t| Duration::from_secs(t.pick(40, 300)),
    run: run_c06,
    crash_is_violation: false,
    finish: None,
};

fn run_c06(ctx: &mut Ctx, rep: &mut Report) {
    if !crate::clock::self_test() { rep.inconclusive("virtual clock shim not active"); return }
    let mut rng = ctx.rng("c06");
    let mut b = match Builder::new() { Ok(b) => b, Err(e) => { rep.inconclusive(e); return } };
    let n = ctx.tier.pick(12usize, 250);
    for h in 0..n {
        if !ctx.time_left() { rep.note("time budget reached"); break }
        crate::clock::set_offset(0);
        let realtime_variant = h % 12 == 11;
        let t0 = crate::clock::now();
        let params = GenParams { tals: 1, max_cas: 3 + rng.usize(5), max_depth: 1 + rng.usize(3), max_objects: 1 + rng.usize(3), repos: 1 + rng.usize(2), ..GenParams::default() };
        let mut w = generate(&mut rng, t0, &params);
        let short: Ts = if realtime_variant { 3 } else { 3600 };
        let mut stale_later: BTreeSet<usize> = BTreeSet::new();
        for c in 0..w.cas.len() {
            w.cas[c].mft_ee_na = t0 + 20 * DAY;
            w.cas[c].mft_next = t0 + 10 * DAY; w.cas[c].crl_next = t0 + 10 * DAY;
            if rng.chance(1, 3) {
                match rng.usize(3) { 0 => w.cas[c].mft_next = t0 + short, 1 => w.cas[c].crl_next = t0 + short, _ => { w.cas[c].mft_next = t0 + short; w.cas[c].crl_next = t0 + short; } }
                stale_later.insert(c);
            }
        }
        let pol = Policy { stale: *rng.pick(&[Filter::Reject, Filter::Warn, Filter::Accept]), ..Policy::default() };
        let mut env = Env::new(&ctx.scratch.join("env"));
        pol.apply(&mut env.config);
        env.config.dirty_repository = true;
        let mut model = HistModel::new();
        let mut trace = Vec::new();
        let steps = 2 + rng.usize(2);
        for k in 0..steps {
            let path;
            if k == 0 { path = "initial"; }
            else {
                // advance the clock past the short nextUpdates
                if realtime_variant { std::thread::sleep(Duration::from_millis(4200)); }
                else { crate::clock::set_offset(k as i64 * 7200); }
                match rng.usize(4) {
                    0 => { path = "stored/withheld"; for c in w.cas.iter_mut() { c.unreachable = true; } }
                    1 => { path = "stored/same-files"; for c in w.cas.iter_mut() { c.unreachable = false; } }
                    2 => {
                        path = "fetch/new-but-stale-or-premature";
                        let mut w2 = evolve(&w, k, &mut rng, Emphasis::Ordering);
                        for c in 0..w2.cas.len() {
                            w2.cas[c].mft_number = w.cas[c].mft_number + 1; w2.cas[c].mft_this = w.cas[c].mft_this + 60; w2.cas[c].crl_this = w2.cas[c].mft_this; w2.cas[c].mft_ee_nb = w2.cas[c].mft_this - 60;
                            if rng.chance(1, 3) && !realtime_variant { let f = *rng.pick(&[PointFault::MftPremature, PointFault::MftStale, PointFault::CrlStale]); w2.now = crate::clock::now(); apply_point_fault(&mut w2, c, f, &mut rng); w2.now = w.now; }
                        }
                        w = w2;
                    }
                    _ => {
                        path = "fetch/refreshed";
                        let mut w2 = w.clone();
                        let now = crate::clock::now();
                        for c in 0..w2.cas.len() { w2.cas[c].unreachable = false; if rng.bool() { w2.cas[c].mft_number += 1; w2.cas[c].mft_this = now - 1800; w2.cas[c].crl_this = now - 1800; w2.cas[c].mft_ee_nb = now - 1900; w2.cas[c].mft_next = now + 10 * DAY; w2.cas[c].crl_next = now + 10 * DAY; w2.cas[c].mft_serial += 1; } }
                        w = w2;
                    }
                }
            }
            let p = b.publish(&w);
            env.serve(&p);
            let now = crate::clock::now();
            ctx.begin_case(&json!({"history": h, "step": k, "path": path}));
            let t_run = std::time::Instant::now();
            let out = run_engine(&env.config, true, &LocalExceptions::empty());
            let e = model.step(w.clone(), p, now, &pol, true);
            rep.eval();
            trace.push(format!("step {k} ({path}, clock +{}s): {:?}", crate::clock::offset(), model.decisions));
            let replay = json!({"world": w, "policy": format!("{:?}", pol), "stale_after_first_run": stale_later, "trace": trace, "realtime_variant": realtime_variant});
            if t_run.elapsed() > Duration::from_secs(if realtime_variant { 1 } else { 10 }) { rep.inconclusive("run too slow for the time margins; not judged"); break }
            let Some(snap) = out.snapshot else { rep.inconclusive("run failed"); break };
            let (su, mi) = compare(&e, &observe(&snap), &ec_hex(&b));
            for s in su.iter().take(2) {
                let c = item_ca(s);
                let stale_involved = c.map(|c| { let mut x = Some(c); let mut hit = false; while let Some(cc) = x { if matches!(model.decisions.get(&cc), Some(Decision::Rejected("stale"))) { hit = true } x = w.cas[cc].parent; } hit }).unwrap_or(false);
                rep.violation(if stale_involved { "C06/stale-ca-contributes-under-reject" } else { "C06/surplus-item" }, format!("{path}: served but must not be: {s} (policy {:?}, decisions {:?})", pol.stale, model.decisions), replay.clone());
            }
            for m in mi.iter().take(2) {
                rep.violation(if pol.stale != Filter::Reject { "C06/stale-ca-dropped-under-warn-or-accept" } else { "C06/missing-item" }, format!("{path}: expected but missing: {m} (policy {:?}, decisions {:?})", pol.stale, model.decisions), replay.clone());
            }
            for d in model.decisions.values() {
                let cls = match d { Decision::Fetched(_) => "fetched".to_string(), Decision::Stored(_, r) => format!("stored:{r}"), Decision::Rejected(r) => format!("rejected:{r}"), Decision::Unreached => "unreached".into() };
                rep.class(format!("{:?}|{path}|{cls}{}", pol.stale, if realtime_variant { "|realtime" } else { "" }));
            }
        }
        if rep.samples.len() < 2 { rep.sample(json!({"policy": format!("{:?}", pol.stale), "stale_after_first_run": stale_later, "trace": trace})); }
    }
    crate::clock::set_offset(0);
}

//------------ C40 -----------------------------------------------------------

pub const C40: Check = Check {
    id: "C40",
    level: "exploration",
    rule: "histories on one cache in which publication points appear, disappear from their parent's manifest, expire (virtual clock \
           past the manifest EE notAfter, or only past the manifest's nextUpdate while its certificate is still valid) and move to another rsync module, with 'dirty' on and off and with successful and \
           failed runs (forced failure at entry; natural fatal failure by planting a directory where a stored file is expected). \
           Observed: the set of files under the cache directory before and after every run. Oracle (existence before AND still \
           needed => existence after): after a successful run every stored point that existed before and whose manifest EE has not \
           expired (>= 30 min margin) still loads; the rsync module copy of every such point and of every module fetched in this \
           run still exists if it existed / was fetched; with 'dirty' the file set only grows; after a failed run no file present \
           before is missing; an offline follow-up run serves the payload of the stored versions. distinct = (dirty, event kinds in \
           the step, success/failure) classes",
    assumptions: &["rsync transport; RRDP archives are covered by the RRDP checks' cleanup leg"],
    shards: |_| 16,
    watchdog: |t| Duration::from_secs(t.pick(600, 3600)),
    budget: |t| Duration::from_secs(t.pick(40, 300)),
    run: run_c40,
    crash_is_violation: false,
    finish: None,
};

fn list_files(root: &std::path::Path) -> BTreeSet<String> {
    let mut out = BTreeSet::new();
    fn rec(base: &std::path::Path, p: &std::path::Path, out: &mut BTreeSet<String>) {
        let Ok(rd) = std::fs::read_dir(p) else { return };
        for e in rd.flatten() {
            let p = e.path();
            let rel = p.strip_prefix(base).unwrap().display().to_string();
            if rel.starts_with("stored/tmp") { continue }
            if p.is_dir() { rec(base, &p, out) } else { out.insert(rel); }
        }
    }
    rec(root, root, &mut out);
    out
}

fn run_c40(ctx: &mut Ctx, rep: &mut Report) {
    if !crate::clock::self_test() { rep.inconclusive("virtual clock shim not active"); return }
    let hooks = Hooks::install();
    hooks.set_record(false);
    let mut rng = ctx.rng("c40");
    let mut b = match Builder::new() { Ok(b) => b, Err(e) => { rep.inconclusive(e); return } };
    let n = ctx.tier.pick(10usize, 200);
    for h in 0..n {
        if !ctx.time_left() { rep.note("time budget reached"); break }
        crate::clock::set_offset(0);
        let t0 = crate::clock::now();
        let params = GenParams { tals: 1, max_cas: 3 + rng.usize(5), max_depth: 1 + rng.usize(2), max_objects: 1 + rng.usize(3), repos: 2, ..GenParams::default() };
        let mut w = generate(&mut rng, t0, &params);
        // manifest EE lifetimes: some short (expire during the history), most long
        for c in 0..w.cas.len() {
            w.cas[c].mft_ee_na = if rng.chance(1, 3) { t0 + 3 * 3600 } else { t0 + 30 * DAY };
            w.cas[c].mft_next = w.cas[c].mft_ee_na.min(t0 + 5 * DAY); w.cas[c].crl_next = t0 + 5 * DAY;
            // some long-lived manifest certificates carry a manifest whose nextUpdate passes during the history (stale is
            // accepted here): the stored point stays needed until the certificate expires, not until nextUpdate
            if w.cas[c].mft_ee_na > t0 + DAY && rng.chance(1, 3) { w.cas[c].mft_next = t0 + 3600; w.cas[c].crl_next = t0 + 3600; }
        }
        // host names are case-insensitive: a third of the histories spell one repository's host with capitals
        if rng.chance(1, 3) { w.host_override.insert(1, "R1.Rpki.TEST".to_string()); }
        let dirty = rng.chance(1, 3);
        let pol = Policy { stale: Filter::Accept, ..Policy::default() };
        let mut env = Env::new(&ctx.scratch.join("env"));
        pol.apply(&mut env.config);
        env.config.dirty_repository = dirty;
        let cache = env.dir.join("cache");
        let mut model = HistModel::new();
        let mut removed_children: Vec<(usize, Obj)> = Vec::new();
        let steps = 3 + rng.usize(3);
        let mut trace = Vec::new();
        for k in 0..steps {
            let mut events: Vec<&str> = Vec::new();
            if k > 0 {
                let mut w2 = evolve(&w, k, &mut rng, Emphasis::Ordering);
                for c in 0..w2.cas.len() { w2.cas[c].mft_number = w.cas[c].mft_number + 1; w2.cas[c].mft_this = w.cas[c].mft_this + 60; w2.cas[c].crl_this = w2.cas[c].mft_this; w2.cas[c].mft_ee_nb = w2.cas[c].mft_this - 60; }
                // disappear: drop a child CA certificate from its parent's manifest
                if rng.chance(1, 3) {
                    let cands: Vec<(usize, usize)> = w2.cas.iter().flat_map(|c| c.objects.iter().enumerate().filter(|(_, o)| matches!(o.kind, ObjKind::ChildCa(_))).map(move |(i, _)| (c.id, i))).collect();
                    if !cands.is_empty() { let (c, i) = cands[rng.usize(cands.len())]; let o = w2.cas[c].objects.remove(i); removed_children.push((c, o)); events.push("disappear"); }
                }
                // reappear
                if !removed_children.is_empty() && rng.chance(1, 3) { let (c, o) = removed_children.remove(0); w2.cas[c].objects.push(o); events.push("reappear"); }
                // move to another module
                if rng.chance(1, 4) { let c = rng.usize(w2.cas.len()); w2.cas[c].repo = 1 - w2.cas[c].repo.min(1); events.push("move"); }
                // time passes: possibly past the short manifest EE lifetimes
                if rng.chance(1, 2) { crate::clock::set_offset(crate::clock::offset() + 2 * 3600); events.push("time+2h"); }
                // keep manifests within their EE validity: re-issue EE where it would be expired (a live CA refreshes), except some
                let now = crate::clock::now();
                for c in 0..w2.cas.len() { if w2.cas[c].mft_ee_na <= now + 1800 && rng.chance(2, 3) { w2.cas[c].mft_ee_na = now + 30 * DAY; w2.cas[c].mft_next = now + 5 * DAY; } }
                w = w2;
            }
            let fail_kind = if k > 0 && rng.chance(1, 4) { 1 + rng.usize(2) } else { 0 };
            let p = b.publish(&w);
            env.serve(&p);
            env.clear_rsync_log();
            let before = list_files(&cache);
            let stored_before = super::hist::read_store(&env.dir);
            let now = crate::clock::now();
            let mut planted: Option<(std::path::PathBuf, std::path::PathBuf)> = None;
            if fail_kind == 1 { hooks.push_fault("run.outcome", Some(if rng.bool() { 1 } else { 2 })); events.push("forced-failure"); }
            if fail_kind == 2 {
                // natural fatal failure: a directory where a stored point file is expected
                if let Some(f) = before.iter().find(|f| f.starts_with("stored/rsync/") && f.ends_with(".mft")) {
                    let path = cache.join(f); let aside = cache.join("aside.bin");
                    if std::fs::rename(&path, &aside).is_ok() && std::fs::create_dir(&path).is_ok() { planted = Some((path, aside)); events.push("planted-directory"); }
                }
            }
            ctx.begin_case(&json!({"history": h, "step": k, "events": events}));
            let out = run_engine(&env.config, true, &LocalExceptions::empty());
            rep.eval();
            let was_planted = planted.is_some();
            if let Some((path, aside)) = planted.take() { let _ = std::fs::remove_dir_all(&path); if let Some(d) = path.parent() { let _ = std::fs::create_dir_all(d); } let _ = std::fs::rename(&aside, &path); }
            let after = list_files(&cache);
            let lc = |m: &str| match m.split_once('/') { Some((h, rest)) => format!("{}/{}", h.to_ascii_lowercase(), rest), None => m.to_ascii_lowercase() };
            let fetched_any: BTreeSet<String> = env.rsync_log().iter().filter_map(|l| l["module"].as_str().map(|s| lc(s))).collect();
            // files inside a module that was fetched in this run are the mirror's business, not cleanup's
            let in_fetched = |f: &str| fetched_any.iter().any(|m| f.starts_with(&format!("rsync/{m}/")));
            trace.push(format!("step {k}: {:?} -> {}", events, if out.snapshot.is_some() { "ok" } else { "failed" }));
            let replay = json!({"world": w, "dirty": dirty, "trace": trace, "seed": ctx.seed, "shard": ctx.shard});
            let success = out.snapshot.is_some();
            if fail_kind != 0 && success && fail_kind == 1 { rep.inconclusive("forced failure did not fail the run"); }
            if !success {
                if fail_kind == 0 { rep.inconclusive("run failed unexpectedly"); break }
                let lost: Vec<&String> = before.iter().filter(|f| !after.contains(*f) && *f != "aside.bin" && !in_fetched(f)).take(4).collect();
                if !lost.is_empty() { rep.violation("C40/files-removed-by-failed-run", format!("a failed run removed files: {:?}", lost), replay.clone()); }
                rep.class(format!("dirty{}|failed:{}|{}", dirty as u8, fail_kind, events.join("+")));
                continue
            }
            if was_planted { rep.note("planted directory did not make the run fail (path not visited); step not judged"); let _ = model.step(w.clone(), p, now, &pol, true); continue }
            let e = model.step(w.clone(), p, now, &pol, true);
            // payload cross-check
            if let Some(snap) = &out.snapshot {
                let (su, mi) = compare(&e, &observe(snap), &ec_hex(&b));
                if !su.is_empty() || !mi.is_empty() { rep.violation("C40/payload-differs", format!("payload differs from the history model: surplus {:?} missing {:?} decisions {:?}", su.first(), mi.first(), model.decisions), replay.clone()); }
            }
            if dirty {
                let lost: Vec<&String> = before.iter().filter(|f| !after.contains(*f) && !in_fetched(f)).take(4).collect();
                if !lost.is_empty() { rep.violation("C40/dirty-removed-files", format!("with 'dirty' set the run removed files: {:?}", lost), replay.clone()); }
            }
            // stored points that existed before and are unexpired must still load
            let stored_after = super::hist::read_store(&env.dir);
            for (repo_uri, _) in &stored_before {
                // find the CA spec as stored (model before this step is gone; use not_after via the world: the stored version's EE expiry)
                let ca = (0..w.cas.len()).find(|c| w.ca_repository(*c) == *repo_uri || model.versions.iter().any(|(wv, _)| wv.cas.get(*c).map(|_| wv.ca_repository(*c) == *repo_uri).unwrap_or(false)));
                let Some(ca) = ca else { continue };
                // the expiry of whatever version is stored now or was stored: be conservative and require all known versions' EE to be unexpired
                let min_na = model.versions.iter().filter(|(wv, _)| wv.cas.get(ca).map(|_| wv.ca_repository(ca) == *repo_uri).unwrap_or(false)).map(|(wv, _)| wv.cas[ca].mft_ee_na).min().unwrap_or(0);
                if min_na > now + 1800 && !stored_after.contains_key(repo_uri) {
                    rep.violation("C40/unexpired-stored-point-removed", format!("the stored point for {repo_uri} existed before the run, its manifest certificate is valid until {min_na} (now {now}), but it is gone after cleanup"), replay.clone());
                }
            }
            // module copies
            let fetched: BTreeSet<String> = env.rsync_log().iter().filter(|l| l["code"].as_i64() == Some(0)).filter_map(|l| l["module"].as_str().map(|s| lc(s))).collect();
            for m in &fetched {
                if !after.iter().any(|f| f.starts_with(&format!("rsync/{m}/"))) && p_has_files(&env, m) {
                    rep.violation("C40/fetched-module-removed", format!("module {m} was fetched successfully in this run but its copy is gone after cleanup"), replay.clone());
                }
            }
            for (repo_uri, _) in &stored_after {
                let m = repo_uri.trim_start_matches("rsync://"); let mut it = m.splitn(3, '/'); let module = format!("{}/{}", it.next().unwrap_or("").to_ascii_lowercase(), it.next().unwrap_or(""));
                let had = before.iter().any(|f| f.starts_with(&format!("rsync/{module}/"))) || fetched.contains(&module);
                if had && !after.iter().any(|f| f.starts_with(&format!("rsync/{module}/"))) {
                    rep.violation("C40/module-of-retained-point-removed", format!("the stored point for {repo_uri} is retained but the copy of its module {module} was removed"), replay.clone());
                }
            }
            // offline follow-up
            if rng.chance(1, 2) {
                let out2 = run_engine(&env.config, false, &LocalExceptions::empty());
                let mut m2 = HistModel::new(); m2.versions = model.versions.clone(); m2.stored = model.stored.clone(); m2.copy = model.copy.clone();
                // cleanup may have removed expired stored points: drop those from the model copy
                let present: BTreeSet<String> = stored_after.keys().cloned().collect();
                m2.stored.retain(|c, _| present.contains(&w.ca_repository(*c)));
                let e2 = m2.step(w.clone(), b.publish(&w), now, &pol, false);
                if let Some(s2) = out2.snapshot { let (su, mi) = compare(&e2, &observe(&s2), &ec_hex(&b)); if !su.is_empty() || !mi.is_empty() { rep.violation("C40/offline-run-differs", format!("offline run after cleanup: surplus {:?} missing {:?}", su.first(), mi.first()), replay.clone()); } rep.count("offline_runs_checked", 1); }
            }
            let removed = before.iter().filter(|f| !after.contains(*f)).count();
            rep.count("files_removed_by_cleanup", removed as u64);
            rep.class(format!("dirty{}|ok|{}|removed{}", dirty as u8, events.join("+"), (removed > 0) as u8));
        }
        if rep.samples.len() < 2 { rep.sample(json!({"dirty": dirty, "trace": trace})); }
    }
    crate::clock::set_offset(0);
    Hooks::uninstall();
    let _ = BTreeMap::<u8, u8>::new();
}

fn p_has_files(env: &Env, module: &str) -> bool {
    std::fs::read_dir(env.ctrl.join("root").join(module)).map(|mut d| d.next().is_some()).unwrap_or(false)
}
