//! One module per property (or small family of related properties).

use crate::core::Check;

pub mod cache;
pub mod config;
pub mod delta;
pub mod hist;
pub mod hist2;
pub mod history;
pub mod jsondelta;
pub mod ops;
pub mod outputs;
pub mod rrdp;
pub mod rrdp2;
pub mod crash;
pub mod paths;
pub mod rtrsrv;
pub mod sched;
pub mod server;
pub mod validity;
pub mod worlds;
pub mod worlds2;

pub fn all() -> Vec<&'static Check> {
    vec![
        &worlds::C01,
        &worlds::C02,
        &hist::C03,
        &hist::C04,
        &hist::C05,
        &hist2::C06,
        &worlds2::C07,
        &worlds2::C08,
        &worlds2::C09,
        &worlds2::C10,
        &ops::C37,
        &rrdp::C38,
        &rrdp::C31,
        &rrdp::C29,
        &rrdp2::C25,
        &rrdp2::C24,
        &crash::C23,
        &paths::C30,
        &worlds2::C39,
        &hist2::C40,
        &worlds2::C41,
        &delta::C11,
        &delta::C12,
        &history::C13,
        &history::C14,
        &server::C15,
        &server::C16,
        &server::C17,
        &jsondelta::C18,
        &rtrsrv::C19,
        &validity::C20,
        &outputs::C21,
        &outputs::C22,
        &cache::C26,
        &cache::C27,
        &cache::C28,
        &ops::C32,
        &sched::C33,
        &sched::C34,
        &config::C35,
        &rtrsrv::C36,
    ]
}

pub fn find(id: &str) -> Option<&'static Check> {
    all().into_iter().find(|c| c.id == id)
}

/// Special sub-commands of the rv binary used by some checks (helpers that
/// must run in their own process).
pub fn special(args: &[String]) -> Option<i32> {
    if args.get(1).map(|s| s.as_str()) == Some("routinator") {
        return Some(crate::rvbin::main(&args[1..]))
    }
    if args.get(1).map(|s| s.as_str()) == Some("rrdp-child") {
        return Some(crate::props::rrdp2::child_main(&args[2..]))
    }
    None
}
