//! More single-run world properties: C07 (depth / cycles), C08 (unsafe
//! VRPs), C09 (composition incl. SLURM), C10 (TA binding), C39 (refresh
//! deadline), C41 (fault isolation between repositories).

use std::collections::{BTreeMap, BTreeSet};
use std::time::Duration;
use serde_json::json;
use routinator::slurm::LocalExceptions;
use crate::core::{Check, Ctx, Report, Rng};
use crate::hooks::Hooks;
use crate::world::build::Builder;
use crate::world::oracle::*;
use crate::world::run::{run_engine, run_engine_retrying, Env};
use crate::world::spec::*;
use super::worlds::ec_hex;

fn now_ts() -> i64 { chrono::Utc::now().timestamp() }

fn judge(e: &Expected, o: &Observed, b: &Builder, prop: &str, rep: &mut Report, replay: serde_json::Value) -> bool {
    let (surplus, missing) = compare(e, o, &ec_hex(b));
    for s in surplus.iter().take(3) { rep.violation(format!("{prop}/surplus-item"), format!("served but not expected: {s}"), replay.clone()); }
    for m in missing.iter().take(3) { rep.violation(format!("{prop}/missing-item"), format!("expected but not served: {m}"), replay.clone()); }
    surplus.is_empty() && missing.is_empty()
}

//------------ C07 -----------------------------------------------------------

pub const C07: Check = Check {
    id: "C07",
    level: "exploration",
    rule: "hierarchies with chains of length depth-1, depth, depth+1 for max-ca-depth in {0,1,2,5,32}, cycles of length 1-4 (a CA \
           issues a certificate for an ancestor's key pointing at the ancestor's publication point) and side branches, 1-8 \
           validation threads. Monitors: the run returns (logical bound: the number of publication-point processing events seen \
           at the hook equals the number of CA nodes the oracle says are reached), payload equals the oracle's (nothing from \
           beyond the depth limit or through a repeated key, everything else present). distinct = (max depth, chain length \
           relative to it, cycle length, threads) classes",
    assumptions: &["'terminates' is judged as the run returning with exactly as many publication point visits as reachable CA nodes"],
    shards: |_| 16,
    watchdog: |t| Duration::from_secs(t.pick(600, 3600)),
    budget: |t| Duration::from_secs(t.pick(40, 300)),
    run: run_c07,
    crash_is_violation: false,
    finish: None,
};

fn run_c07(ctx: &mut Ctx, rep: &mut Report) {
    let hooks = Hooks::install();
    let mut rng = ctx.rng("c07");
    let mut b = match Builder::new() { Ok(b) => b, Err(e) => { rep.inconclusive(e); return } };
    let n = ctx.tier.pick(14usize, 200);
    for i in 0..n {
        if !ctx.time_left() { rep.note("time budget reached"); break }
        let depth = *rng.pick(&[0usize, 1, 2, 5, 32]);
        let rel: i64 = rng.range(-1, 1);
        let len = if depth == 32 { (32 + rel) as usize } else { (depth as i64 + rel).max(0) as usize };
        let nobj = 1 + rng.usize(2);
        let mut w = gen_chain(&mut rng, now_ts(), len, nobj);
        // side branch
        if len >= 1 && rng.bool() {
            let at = rng.usize(len);
            let id = w.cas.len();
            let mut c = w.cas[at + 1].clone();
            c.id = id; c.parent = Some(at); c.key = (id + 3) % crate::world::keys::CA_KEYS; c.objects = Vec::new();
            w.cas.push(c);
            let serial = 700 + w.cas[at].objects.len() as u64;
            let now = w.now;
            w.cas[at].objects.push(Obj { name: format!("ca{id}.cer"), kind: ObjKind::ChildCa(id), serial, nb: now - DAY, na: now + 50 * DAY, fault: None, salt: 0 });
            let blocks = w.blocks(id);
            let o = gen_object(&mut rng, now, id, &blocks, 0, 100);
            w.cas[id].objects.push(o);
            // the branch's block must be held by all its ancestors: blocks() already includes descendants
        }
        let mut cycle_len = 0;
        if len >= 1 && rng.chance(2, 3) {
            let from = 1 + rng.usize(len);
            let to = from.saturating_sub(rng.usize(4).min(from));
            cycle_len = from - to + 1;
            add_cycle(&mut w, from, to);
        }
        // further trust anchors with chains at the same boundary: the depth is counted per trust anchor
        let extra_tals = if len <= 8 { rng.usize(3) } else { 0 };
        for _ in 0..extra_tals { let l2 = (len as i64 + rng.range(-1, 1)).max(0) as usize; add_chain(&mut w, &mut rng, l2, nobj); }
        let pol = Policy { max_ca_depth: depth, ..Policy::default() };
        let threads = 1 + rng.usize(8);
        let mut env = Env::new(&ctx.scratch.join("env"));
        pol.apply(&mut env.config);
        env.config.validation_threads = threads;
        let p = b.publish(&w);
        env.serve(&p);
        hooks.take_events();
        ctx.begin_case(&json!({"case": i, "depth": depth, "len": len, "cycle": cycle_len, "extra_tals": extra_tals}));
        let out = run_engine(&env.config, true, &LocalExceptions::empty());
        rep.eval();
        let replay = json!({"world": w, "max_ca_depth": depth, "threads": threads});
        let Some(snap) = out.snapshot else { rep.violation("C07/run-failed", "validation run failed on a deep/cyclic hierarchy", replay); continue };
        let e = expect_fresh(&w, w.now, &pol);
        let visits = hooks.take_events().iter().filter(|e| e.name == "pubpoint.process").count();
        let reached = e.accepted.len() + e.rejected.len();
        if visits != reached {
            rep.violation(if visits > reached { "C07/more-visits-than-ca-nodes" } else { "C07/fewer-visits-than-ca-nodes" },
                format!("{visits} publication point visits, oracle says {reached} CA nodes are reachable (max depth {depth}, chain {len}, cycle {cycle_len})"), replay.clone());
        }
        judge(&e, &observe(&snap), &b, "C07", rep, replay);
        rep.class(format!("d{depth}|rel{rel}|cyc{cycle_len}|t{}|tals{}", threads.min(3), 1 + extra_tals));
        rep.max("max_pubpoint_visits", visits as u64);
        if rep.samples.len() < 2 { rep.sample(json!({"max_ca_depth": depth, "chain_len": len, "cycle_len": cycle_len, "visits": visits, "vrps": e.vrps.len()})); }
    }
    Hooks::uninstall();
}

//------------ C08 -----------------------------------------------------------

pub const C08: Check = Check {
    id: "C08",
    level: "exploration",
    rule: "worlds where unrelated CAs hold each other's resource blocks (so their ROAs are equal to / nested in / covering / disjoint \
           from a rejected CA's prefixes, IPv4 and IPv6), CAs holding the whole address family (both families, or only IPv4 / only IPv6 next to specific blocks of the other), and 1-3 publication points made \
           unusable (missing/invalid/stale manifest, bad CRL, missing file), for each unsafe-vrps policy. Oracle: set of rejected \
           CAs from the model -> their blocks minus whole-family blocks -> under 'reject' served = expected minus intersecting \
           VRPs, under warn/accept nothing removed; every second 'reject' case is followed by the server's initial (restart) run on the same cache, which must not serve an overlapping VRP either. distinct = (policy, #rejected, some VRP overlapped?, slash-zero involved) classes",
    assumptions: &[],
    shards: |_| 16,
    watchdog: |t| Duration::from_secs(t.pick(600, 3600)),
    budget: |t| Duration::from_secs(t.pick(40, 300)),
    run: run_c08,
    crash_is_violation: false,
    finish: None,
};

fn run_c08(ctx: &mut Ctx, rep: &mut Report) {
    let mut rng = ctx.rng("c08");
    let mut b = match Builder::new() { Ok(b) => b, Err(e) => { rep.inconclusive(e); return } };
    let n = ctx.tier.pick(40usize, 700);
    for i in 0..n {
        if !ctx.time_left() { rep.note("time budget reached"); break }
        let params = GenParams { tals: 1 + rng.usize(2), max_cas: 4 + rng.usize(9), max_depth: 1 + rng.usize(3), max_objects: 2 + rng.usize(6), repos: 2, obj_faults: 0, point_faults: 0, overlaps: true, rrdp: false };
        let mut w = generate(&mut rng, now_ts(), &params);
        let slash0 = rng.chance(2, 5);
        if slash0 {
            // a root and one of its children hold 0/0
            let root = w.tals[0].root;
            w.cas[root].slash0 = true;
            if let Some(c) = w.children(root).first() { w.cas[*c].slash0 = true; w.cas[*c].slash0_families = rng.usize(3) as u8; }
            // Holders of the whole address family publish ROAs whose prefixes cover (are less specific than)
            // other CAs' blocks, or cover several of them: the "covering" side of the intersection test.
            let holders: Vec<usize> = (0..w.cas.len()).filter(|c| w.cas[*c].slash0).collect();
            for h in holders {
                let mut prefixes = Vec::new();
                for _ in 0..1 + rng.usize(3) {
                    let bb = rng.usize(w.cas.len());
                    // a covering prefix needs the whole family
                    let want_v4 = if w.whole_family(h, true) && w.whole_family(h, false) { rng.bool() } else { w.whole_family(h, true) };
                    if want_v4 {
                        let (bits, _) = block_v4(bb);
                        let l = 8 + rng.usize(8) as u8;      // /8../15, covers block bb (a /16)
                        let m = u128::MAX << (128 - l as u32);
                        prefixes.push(Pfx { v4: true, bits: bits & m, len: l, max: if rng.bool() { None } else { Some(l + rng.usize(6) as u8) } });
                    } else {
                        let (bits, _) = block_v6(bb);
                        let l = 32 + rng.usize(16) as u8;    // /32../47, covers block bb (a /48)
                        let m = u128::MAX << (128 - l as u32);
                        prefixes.push(Pfx { v4: false, bits: bits & m, len: l, max: if rng.bool() { None } else { Some(l + rng.usize(10) as u8) } });
                    }
                }
                prefixes.sort(); prefixes.dedup_by(|a, b| a.v4 == b.v4 && a.bits == b.bits && a.len == b.len);
                let serial = 900 + w.cas[h].objects.len() as u64;
                w.cas[h].objects.push(Obj { name: format!("cover{h}.roa"), kind: ObjKind::Roa { asn: block_as(h).0 + rng.u32() % 100, prefixes },
                    serial, nb: w.now - DAY, na: w.now + 30 * DAY, fault: None, salt: 0 });
            }
        }
        // Make 1-3 non-root points unusable.
        let victims: Vec<usize> = (0..w.cas.len()).filter(|c| w.cas[*c].parent.is_some()).collect();
        let k = if victims.is_empty() { 0 } else { 1 + rng.usize(3.min(victims.len())) };
        for _ in 0..k {
            let v = victims[rng.usize(victims.len())];
            let f = *rng.pick(&[PointFault::MftAbsent, PointFault::MftBadSignature, PointFault::MftStale, PointFault::CrlBadSignature, PointFault::MissingFile, PointFault::CrlMissing]);
            apply_point_fault(&mut w, v, f, &mut rng);
        }
        let pol = Policy { unsafe_vrps: *rng.pick(&[Filter::Reject, Filter::Reject, Filter::Warn, Filter::Accept]), stale: Filter::Reject, ..Policy::default() };
        let mut env = Env::new(&ctx.scratch.join("env"));
        pol.apply(&mut env.config);
        env.config.validation_threads = 1 + rng.usize(4);
        env.serve(&b.publish(&w));
        ctx.begin_case(&json!({"case": i}));
        let out = run_engine(&env.config, true, &LocalExceptions::empty());
        rep.eval();
        let replay = json!({"world": w, "policy": format!("{:?}", pol)});
        let Some(snap) = out.snapshot else { rep.inconclusive("run failed"); continue };
        let e = expect_fresh(&w, w.now, &pol);
        let o = observe(&snap);
        // Property-specific judgement with precise signatures.
        let (rejected_v4, rejected_v6) = rejected_blocks_of(&w, &e.rejected);
        let hits = |v: &Vrp| (if v.0 { &rejected_v4 } else { &rejected_v6 }).iter().any(|bl| { let (bits, len) = if v.0 { block_v4(*bl) } else { block_v6(*bl) }; overlaps(v.1, v.2, bits, len) });
        if pol.unsafe_vrps == Filter::Reject {
            for v in o.vrps.iter().filter(|v| hits(v)).take(3) {
                rep.violation("C08/unsafe-vrp-served", format!("VRP {} overlaps the resources of a rejected CA but is served under unsafe-vrps=reject", fmt_vrp(v)), replay.clone());
            }
        }
        let all: BTreeSet<Vrp> = e.vrps.union(&e.unsafe_dropped).cloned().collect();
        for v in all.iter().filter(|v| !(pol.unsafe_vrps == Filter::Reject && hits(v))).filter(|v| !o.vrps.contains(v)).take(3) {
            rep.violation(if pol.unsafe_vrps == Filter::Reject { "C08/safe-vrp-filtered" } else { "C08/filter-applied-under-warn-or-accept" },
                format!("VRP {} does not overlap rejected resources (or the policy is {:?}) but is not served", fmt_vrp(v), pol.unsafe_vrps), replay.clone());
        }
        judge(&e, &o, &b, "C08", rep, replay.clone());
        // A restart: the server's initial run works on what is stored locally. Nothing has changed on the servers, so it
        // must filter exactly as the regular run did.
        if pol.unsafe_vrps == Filter::Reject && i % 2 == 0 {
            let out2 = crate::world::run::run_engine_initial(&env.config, &LocalExceptions::empty());
            rep.eval();
            match out2.snapshot {
                None => rep.note("initial run failed; not judged"),
                Some(s2) => {
                    let o2 = observe(&s2);
                    for v in o2.vrps.iter().filter(|v| hits(v)).take(3) {
                        rep.violation("C08/unsafe-vrp-served/initial-run", format!("VRP {} overlaps the resources of a rejected CA but is served by the initial (restart) run under unsafe-vrps=reject", fmt_vrp(v)), replay.clone());
                    }
                    rep.count("initial_runs_checked", 1);
                }
            }
        }
        let overlapped = all.iter().any(|v| hits(v));
        // relation of overlapping VRPs to the rejected block: nested/equal vs covering
        let covering = all.iter().filter(|v| hits(v)).any(|v| if v.0 { v.2 < 16 } else { v.2 < 48 });
        if covering { rep.count("cases_with_vrp_covering_rejected_block", 1); }
        rep.class(format!("{:?}|rej{}|overlap{}|cover{}|slash0{}", pol.unsafe_vrps, e.rejected.len().min(3), overlapped as u8, covering as u8, slash0 as u8));
        rep.count("vrps_overlapping_rejected_resources", all.iter().filter(|v| hits(v)).count() as u64);
        if rep.samples.len() < 2 && overlapped { rep.sample(json!({"rejected_cas": e.rejected, "unsafe_vrps_policy": format!("{:?}", pol.unsafe_vrps), "dropped": e.unsafe_dropped.iter().map(fmt_vrp).collect::<Vec<_>>()})); }
    }
}

//------------ C09 -----------------------------------------------------------

pub const C09: Check = Check {
    id: "C09",
    level: "exploration",
    rule: "worlds with duplicate VRPs (same VRP from several ROAs and from CAs sharing blocks), ASPA objects of several CAs for one \
           customer incl. unions straddling the 16380-provider encoding limit, router keys, random prefix-length limits at the \
           boundaries (24/25, 48/49, 32, 128), unsafe policy, bgpsec/aspa switches, and SLURM files with prefix/ASN filters, \
           bgpsec filters and prefix/bgpsec assertions (overlapping each other and the validated data). Oracle: the documented \
           multiset algebra computed from the model; each distinct item exactly once (set equality on the snapshot iterators, \
           duplicates counted). distinct = option/feature combination classes",
    assumptions: &["SLURM filter semantics per RFC 8416: a prefix filter matches VRPs whose prefix is equal to or more specific than the filter's"],
    shards: |_| 16,
    watchdog: |t| Duration::from_secs(t.pick(600, 3600)),
    budget: |t| Duration::from_secs(t.pick(40, 300)),
    run: run_c09,
    crash_is_violation: false,
    finish: None,
};

#[derive(Default, Debug, Clone)]
struct Slurm {
    prefix_filters: Vec<(Option<(bool, u128, u8)>, Option<u32>)>,
    bgpsec_filters: Vec<(Option<u32>, Option<usize>)>,   // (asn, ec key index for SKI)
    prefix_assertions: Vec<Vrp>,
    bgpsec_assertions: Vec<(u32, usize)>,
}

fn pfx_str(v4: bool, bits: u128, len: u8) -> String {
    if v4 { format!("{}/{}", std::net::Ipv4Addr::from((bits >> 96) as u32), len) } else { format!("{}/{}", std::net::Ipv6Addr::from(bits), len) }
}

impl Slurm {
    fn to_json(&self, b: &Builder) -> String {
        let ski = |i: usize| rpki::util::base64::Slurm.encode(b.signer.ec_pubs[i].key_identifier().as_slice());
        let key = |i: usize| rpki::util::base64::Slurm.encode(&b.signer.ec_pubs[i].to_info_bytes());
        let pf: Vec<_> = self.prefix_filters.iter().map(|(p, a)| {
            let mut m = serde_json::Map::new();
            if let Some((v4, bits, len)) = p { m.insert("prefix".into(), json!(pfx_str(*v4, *bits, *len))); }
            if let Some(a) = a { m.insert("asn".into(), json!(a)); }
            m.insert("comment".into(), json!("filter"));
            serde_json::Value::Object(m)
        }).collect();
        let bf: Vec<_> = self.bgpsec_filters.iter().map(|(a, k)| {
            let mut m = serde_json::Map::new();
            if let Some(a) = a { m.insert("asn".into(), json!(a)); }
            if let Some(k) = k { m.insert("SKI".into(), json!(ski(*k))); }
            serde_json::Value::Object(m)
        }).collect();
        let pa: Vec<_> = self.prefix_assertions.iter().map(|v| json!({"asn": v.4, "prefix": pfx_str(v.0, v.1, v.2), "maxPrefixLength": v.3, "comment": "assert \"quoted\""})).collect();
        let ba: Vec<_> = self.bgpsec_assertions.iter().map(|(a, k)| json!({"asn": a, "SKI": ski(*k), "routerPublicKey": key(*k)})).collect();
        json!({"slurmVersion": 1, "validationOutputFilters": {"prefixFilters": pf, "bgpsecFilters": bf}, "locallyAddedAssertions": {"prefixAssertions": pa, "bgpsecAssertions": ba}}).to_string()
    }

    fn apply(&self, e: &mut Expected) {
        e.vrps.retain(|v| !self.prefix_filters.iter().any(|(p, a)| {
            let pm = match p { None => true, Some((v4, bits, len)) => *v4 == v.0 && *len <= v.2 && overlaps(*bits, *len, v.1, *len) };
            let am = match a { None => true, Some(a) => *a == v.4 };
            pm && am
        }));
        e.keys.retain(|k| !self.bgpsec_filters.iter().any(|(a, ski)| {
            let am = match a { None => true, Some(a) => *a == k.0 };
            let sm = match ski { None => true, Some(s) => *s == k.1 };
            am && sm
        }));
        for v in &self.prefix_assertions { e.vrps.insert(*v); }
        for k in &self.bgpsec_assertions { e.keys.insert(*k); }
    }
}

fn run_c09(ctx: &mut Ctx, rep: &mut Report) {
    let mut rng = ctx.rng("c09");
    let mut b = match Builder::new() { Ok(b) => b, Err(e) => { rep.inconclusive(e); return } };
    let n = ctx.tier.pick(36usize, 600);
    for i in 0..n {
        if !ctx.time_left() { rep.note("time budget reached"); break }
        let params = GenParams { tals: 1 + rng.usize(2), max_cas: 3 + rng.usize(6), max_depth: 1 + rng.usize(3), max_objects: 3 + rng.usize(6), repos: 2, obj_faults: rng.usize(2), point_faults: 0, overlaps: true, rrdp: false };
        let mut w = generate(&mut rng, now_ts(), &params);
        // Duplicates: copy some ROAs within their CA under another name / serial.
        for c in 0..w.cas.len() {
            if rng.chance(1, 2) {
                if let Some(o) = w.cas[c].objects.iter().find(|o| matches!(o.kind, ObjKind::Roa { .. }) && o.fault.is_none()).cloned() {
                    let mut d = o.clone(); d.name = format!("dup-{}", o.name); d.serial += 5000;
                    w.cas[c].objects.push(d);
                }
            }
        }
        // ASPAs for the same customer from different objects / CAs; sometimes huge.
        let huge = rng.chance(1, 6);
        let mut aspa_case = "none";
        if w.cas.len() >= 1 && rng.chance(2, 3) {
            let ca = rng.usize(w.cas.len());
            let blocks = w.blocks(ca);
            let customer = block_as(blocks[rng.usize(blocks.len())]).0 + 7;
            let parts = 2 + rng.usize(2);
            let total: usize = if huge { *rng.pick(&[16379usize, 16380, 16381, 17000]) } else { 3 + rng.usize(10) };
            aspa_case = if !huge { "small-union" } else if total <= 16380 { "at-limit" } else { "over-limit" };
            for part in 0..parts {
                // overlapping slices whose union has exactly `total` providers
                let lo = part * total / parts;
                let hi = ((part + 1) * total / parts + 2).min(total);
                let lo = lo.saturating_sub(1);
                let providers: Vec<u32> = (lo..hi).map(|x| 300_000 + x as u32).collect();
                let serial = 9000 + part as u64;
                let now = w.now;
                w.cas[ca].objects.push(Obj { name: format!("union-{part}.asa"), kind: ObjKind::Aspa { customer, providers }, serial, nb: now - DAY, na: now + 40 * DAY, fault: None, salt: 0 });
            }
        }
        let lim4 = *rng.pick(&[None, None, Some(24u8), Some(25), Some(32), Some(16), Some(0)]);
        let lim6 = *rng.pick(&[None, None, Some(48u8), Some(49), Some(128), Some(50)]);
        let pol = Policy { stale: Filter::Reject, unsafe_vrps: *rng.pick(&[Filter::Accept, Filter::Reject]), enable_bgpsec: rng.chance(3, 4), enable_aspa: rng.chance(3, 4), limit_v4: lim4, limit_v6: lim6, max_ca_depth: 32 };
        // SLURM
        let mut slurm = Slurm::default();
        let use_slurm = rng.chance(2, 3);
        let pre = expect_fresh(&w, w.now, &pol);
        if use_slurm {
            let vr: Vec<Vrp> = pre.vrps.iter().cloned().collect();
            for _ in 0..rng.usize(4) {
                let p = if !vr.is_empty() && rng.chance(3, 4) {
                    let v = vr[rng.usize(vr.len())];
                    match rng.usize(4) { 0 => Some((v.0, v.1, v.2)), 1 => { let l = v.2.saturating_sub(1 + rng.usize(6) as u8); Some((v.0, v.1 & if l == 0 { 0 } else { u128::MAX << (128 - l as u32) }, l)) }
                        2 => { let l = (v.2 + 1).min(if v.0 { 32 } else { 128 }); Some((v.0, v.1, l)) }, _ => None }.map(|(a, b, l): (bool, u128, u8)| (a, if l == 0 { 0 } else { b & (u128::MAX << (128 - l as u32)) }, l))
                } else { Some((true, (192u128 << 120) | (168u128 << 112), 16)) };
                let a = if p.is_none() || rng.bool() { if !vr.is_empty() { Some(vr[rng.usize(vr.len())].4) } else { Some(64999) } } else { None };
                slurm.prefix_filters.push((p, a));
            }
            for _ in 0..rng.usize(3) {
                let ks: Vec<(u32, usize)> = pre.keys.iter().cloned().collect();
                let (a, k) = if !ks.is_empty() && rng.chance(3, 4) { let x = ks[rng.usize(ks.len())]; (x.0, x.1) } else { (65000, rng.usize(4)) };
                slurm.bgpsec_filters.push(match rng.usize(3) { 0 => (Some(a), None), 1 => (None, Some(k)), _ => (Some(a), Some(k)) });
            }
            for _ in 0..rng.usize(4) {
                if !vr.is_empty() && rng.bool() { slurm.prefix_assertions.push(vr[rng.usize(vr.len())]); }
                else { let l = (20 + rng.usize(5) as u8).min(24); let bits = ((203u128 << 24 | (rng.below(256) as u128) << 8) << 96) & (u128::MAX << (128 - l as u32)); slurm.prefix_assertions.push((true, bits, l, 24, 65010 + rng.u32() % 3)); }
            }
            for _ in 0..rng.usize(3) { slurm.bgpsec_assertions.push((65020 + rng.u32() % 3, rng.usize(4))); }
        }
        let mut env = Env::new(&ctx.scratch.join("env"));
        pol.apply(&mut env.config);
        env.config.validation_threads = 1 + rng.usize(4);
        env.serve(&b.publish(&w));
        let exceptions = if use_slurm {
            let text = slurm.to_json(&b);
            match LocalExceptions::from_json(&text, true) { Ok(x) => x, Err(e) => { rep.inconclusive(format!("generated SLURM rejected: {e}: {text}")); continue } }
        } else { LocalExceptions::empty() };
        ctx.begin_case(&json!({"case": i}));
        let out = run_engine(&env.config, true, &exceptions);
        rep.eval();
        let replay = json!({"world": w, "policy": format!("{:?}", pol), "slurm": if use_slurm { slurm.to_json(&b) } else { String::new() }});
        let Some(snap) = out.snapshot else { rep.inconclusive("run failed"); continue };
        // each distinct item once
        let n_or = snap.origins().count(); let d_or: BTreeSet<_> = snap.origins().map(|x| crate::pgen::fmt_origin(&x.0)).collect();
        let n_k = snap.router_keys().count(); let d_k: BTreeSet<_> = snap.router_keys().map(|x| crate::pgen::fmt_key(x.0)).collect();
        let n_a = snap.aspas().count(); let d_a: BTreeSet<_> = snap.aspas().map(|x| x.0.customer).collect();
        if n_or != d_or.len() || n_k != d_k.len() || n_a != d_a.len() {
            rep.violation("C09/duplicate-item-served", format!("an item is served more than once (origins {n_or}/{}, keys {n_k}/{}, aspa customers {n_a}/{})", d_or.len(), d_k.len(), d_a.len()), replay.clone());
        }
        let mut e = expect_fresh(&w, w.now, &pol);
        if use_slurm { slurm.apply(&mut e); }
        let o = observe(&snap);
        // ASPA specific signatures first.
        for (c, p) in &o.aspas { if let Some(ep) = e.aspas.get(c) { if ep != p { rep.violation("C09/aspa-providers-not-union", format!("ASPA for AS{c} has {} providers, union of its objects has {}", p.len(), ep.len()), replay.clone()); } } }
        judge(&e, &o, &b, "C09", rep, replay);
        let dup = w.cas.iter().any(|c| c.objects.iter().any(|o| o.name.starts_with("dup-")));
        rep.class(format!("slurm{}|dup{}|aspa:{aspa_case}|l4:{:?}|l6:{:?}|unsafe{:?}|b{}a{}", use_slurm as u8, dup as u8, lim4, lim6, pol.unsafe_vrps, pol.enable_bgpsec as u8, pol.enable_aspa as u8));
        if rep.samples.len() < 2 && use_slurm { rep.sample(json!({"slurm": serde_json::from_str::<serde_json::Value>(&slurm.to_json(&b)).ok(), "limits": [lim4, lim6], "expected_vrps": e.vrps.len(), "aspa_case": aspa_case})); }
    }
}

//------------ C10 -----------------------------------------------------------

pub const C10: Check = Check {
    id: "C10",
    level: "fault_enumeration",
    rule: "product of per-URI trust anchor states {good, wrong key, undecodable, expired, unreachable} for TALs with 1-3 URIs x stored \
           copy {absent, older good copy, copy from a previous state} in 2-3-run histories on one cache. Oracle: a TAL contributes \
           iff the first URI (in TAL order) that yields a usable certificate exists, where usable = downloaded and decodable \
           certificate, else the stored copy, whose key equals the TAL key and which validates as TA; the stored TA file after \
           each run must be byte-equal to the last decodable download for that URI (never an undecodable one). Observed: served \
           payload per TAL and files under stored/ta. distinct = (state vector, stored-copy state) classes",
    assumptions: &["all TAL URIs are rsync URIs in separate modules; HTTPS trust anchors are covered by C38"],
    shards: |_| 16,
    watchdog: |t| Duration::from_secs(t.pick(600, 3600)),
    budget: |t| Duration::from_secs(t.pick(40, 300)),
    run: run_c10,
    crash_is_violation: false,
    finish: None,
};

fn ta_files(dir: &std::path::Path) -> Vec<Vec<u8>> {
    let mut out = Vec::new();
    fn rec(p: &std::path::Path, out: &mut Vec<Vec<u8>>) {
        if let Ok(rd) = std::fs::read_dir(p) { for e in rd.flatten() { let p = e.path(); if p.is_dir() { rec(&p, out) } else if let Ok(d) = std::fs::read(&p) { out.push(d) } } }
    }
    rec(&dir.join("cache/stored/ta"), &mut out);
    out.sort();
    out
}

fn run_c10(ctx: &mut Ctx, rep: &mut Report) {
    let mut rng = ctx.rng("c10");
    let mut b = match Builder::new() { Ok(b) => b, Err(e) => { rep.inconclusive(e); return } };
    let states = [TaState::Good, TaState::WrongKey, TaState::Garbage, TaState::Expired, TaState::Unreachable, TaState::NotYetValid];
    if !crate::clock::self_test() { rep.inconclusive("virtual clock shim inactive"); return }
    let n = ctx.tier.pick(30usize, 500);
    for i in 0..n {
        if !ctx.time_left() { rep.note("time budget reached"); break }
        let params = GenParams { tals: 1 + rng.usize(2), max_cas: 2 + rng.usize(3), max_depth: 1, max_objects: 2, repos: 2, ..GenParams::default() };
        let mut w = generate(&mut rng, now_ts(), &params);
        for t in 0..w.tals.len() { let k = 1 + rng.usize(3); w.tals[t].uris = (0..k).map(|_| TaState::Good).collect(); }
        let env = Env::new(&ctx.scratch.join("env"));
        let runs = 2 + rng.usize(2);
        // stored[tal][uri] = Some(state of the last decodable download)
        let mut stored: Vec<Vec<Option<TaState>>> = w.tals.iter().map(|t| vec![None; t.uris.len()]).collect();
        let mut trace = Vec::new();
        let mut offset: i64 = 0;
        for run in 0..runs {
            // the wall clock may move two hours between runs: a stored certificate that was not yet valid becomes valid
            if run > 0 && rng.chance(1, 3) { offset += 2 * 3600; }
            for t in 0..w.tals.len() { for u in 0..w.tals[t].uris.len() { w.tals[t].uris[u] = if run == 0 && rng.chance(1, 2) { TaState::Good } else if run == 0 && rng.chance(1, 3) { TaState::NotYetValid } else { states[rng.usize(6)].clone() }; } }
            let p = b.publish(&w);
            env.serve(&p);
            // An unreachable module must not leave the previous copy in the rsync cache for this check:
            // the property speaks about the stored copy. (The rsync cache copy is a third place; remove it.)
            for t in 0..w.tals.len() { for (u, st) in w.tals[t].uris.iter().enumerate() { if *st == TaState::Unreachable { let _ = std::fs::remove_dir_all(env.dir.join(format!("cache/rsync/ta{t}u{u}.rpki.test"))); } } }
            trace.push(json!(w.tals.iter().map(|t| format!("{:?}", t.uris)).collect::<Vec<_>>()));
            ctx.begin_case(&json!({"case": i, "run": run, "clock_offset": offset}));
            crate::clock::set_offset(offset);
            let out = run_engine(&env.config, true, &LocalExceptions::empty());
            crate::clock::set_offset(0);
            rep.eval();
            let replay = json!({"world": w, "history_of_uri_states": trace, "run": run, "clock_offset_s": offset});
            let Some(snap) = out.snapshot else { rep.violation("C10/run-failed", "run failed", replay); break };
            // model
            let usable = |s: &TaState| *s == TaState::Good || (*s == TaState::NotYetValid && offset >= 3600);
            let mut tal_ok = vec![false; w.tals.len()];
            for t in 0..w.tals.len() {
                for u in 0..w.tals[t].uris.len() {
                    let dl = &w.tals[t].uris[u];
                    let decodable = matches!(dl, TaState::Good | TaState::WrongKey | TaState::Expired | TaState::NotYetValid);
                    let effective = if decodable { stored[t][u] = Some(dl.clone()); Some(dl.clone()) } else { stored[t][u].clone() };
                    if let Some(s) = effective { if usable(&s) { tal_ok[t] = true; break } }
                }
            }
            let pol = Policy::default();
            let e = expect_with(&w, w.now + offset, &pol, &|t| tal_ok[t], &|ca| if fetched_point_usable(&w, ca, &pol) { Some(point_payload(&w, ca, w.now, &pol)) } else { None });
            let o = observe(&snap);
            let (surplus, missing) = compare(&e, &o, &ec_hex(&b));
            for s in surplus.iter().take(2) { rep.violation("C10/payload-from-unusable-ta", format!("served although no TAL URI yields a usable trust anchor: {s}"), replay.clone()); }
            for m in missing.iter().take(2) { rep.violation("C10/usable-ta-not-used", format!("a usable trust anchor (download or stored copy) exists but its payload is missing: {m}"), replay.clone()); }
            // stored files: every stored file must be one of the decodable certificates ever downloaded
            let files = ta_files(&env.dir);
            for f in &files {
                if rpki::repository::cert::Cert::decode(bytes::Bytes::from(f.clone())).is_err() {
                    rep.violation("C10/undecodable-ta-stored", "a file under stored/ta does not decode as a certificate", replay.clone());
                }
            }
            let cls: Vec<String> = w.tals.iter().enumerate().map(|(t, tal)| format!("{:?}/{:?}", tal.uris, stored[t])).collect();
            rep.class(format!("run{run}|{}", cls.join(";")));
            rep.count("stored_ta_files_checked", files.len() as u64);
        }
        if rep.samples.len() < 2 { rep.sample(json!({"uri_state_history": trace})); }
    }
}

//------------ C39 -----------------------------------------------------------

pub const C39: Check = Check {
    id: "C39",
    level: "exploration",
    rule: "worlds whose validity periods are drawn independently at every level (TA and CA certificate notAfter, manifest EE notAfter, \
           manifest nextUpdate, CRL nextUpdate, object EE notAfter), including short-lived objects that contribute nothing (faulty, \
           or GBR/unknown). Oracle: snapshot.refresh() <= min over contributing objects of min(object notAfter, every notAfter / \
           nextUpdate on its chain); refresh must be present whenever payload is; on a quarter of the shards two runs go through the server's update step, the second with the same payload from re-issued objects one of which expires two hours from now, and the served deadline must follow it. distinct = which kind of term is the binding \
           minimum",
    assumptions: &["how the deadline is used for scheduling is C34's business"],
    shards: |_| 16,
    watchdog: |t| Duration::from_secs(t.pick(600, 3600)),
    budget: |t| Duration::from_secs(t.pick(40, 300)),
    run: run_c39,
    crash_is_violation: false,
    finish: None,
};

/// Two consecutive runs through the server's update step (real engine, real SharedHistory): the second run yields the
/// same payload from re-issued objects of which one now expires much earlier. The served data set's refresh deadline
/// must follow the second run.
fn c39_reissue_leg(ctx: &mut Ctx, rep: &mut Report, b: &mut Builder, rng: &mut Rng) {
    let n = ctx.tier.pick(2usize, 30);
    for i in 0..n {
        if !ctx.time_left() { break }
        let params = GenParams { tals: 1, max_cas: 2 + rng.usize(3), max_depth: 2, max_objects: 2 + rng.usize(3), repos: 2, ..GenParams::default() };
        let w1 = generate(rng, now_ts(), &params);
        let e = expect_fresh(&w1, w1.now, &Policy::default());
        // a contributing ROA of an accepted CA
        let cand: Vec<(usize, usize)> = e.accepted.iter().flat_map(|c| w1.cas[*c].objects.iter().enumerate().filter(|(_, o)| matches!(o.kind, ObjKind::Roa { .. }) && o.fault.is_none()).map(move |(k, _)| (*c, k))).collect();
        if cand.is_empty() { continue }
        let (c, k) = cand[rng.usize(cand.len())];
        let mut w2 = w1.clone();
        let early = w1.now + 2 * 3600;
        w2.cas[c].objects[k].na = early;                 // same content, shorter-lived EE certificate
        w2.cas[c].objects[k].serial += 7000;
        w2.cas[c].mft_number += 1; w2.cas[c].mft_this += 60; w2.cas[c].crl_this = w2.cas[c].mft_this; w2.cas[c].mft_ee_nb = w2.cas[c].mft_this - 60; w2.cas[c].mft_serial += 1;
        let env = Env::new(&ctx.scratch.join("env-reissue"));
        env.serve(&b.publish(&w1));
        let mut srv = match crate::srv::TestServer::start_with_config(env.config.clone(), true) { Ok(s) => s, Err(e) => { rep.inconclusive(format!("server start: {e}")); return } };
        ctx.begin_case(&json!({"leg": "reissue", "case": i}));
        if srv.process_once(false).is_err() { rep.inconclusive("first run failed"); continue }
        let r1 = srv.history.read().current().and_then(|s| s.refresh()).map(|t| t.timestamp());
        let o1 = srv.history.read().current().map(|s| observe(&s));
        env.serve(&b.publish(&w2));
        if srv.process_once(false).is_err() { rep.inconclusive("second run failed"); continue }
        rep.eval();
        let r2 = srv.history.read().current().and_then(|s| s.refresh()).map(|t| t.timestamp());
        let o2 = srv.history.read().current().map(|s| observe(&s));
        if o1 != o2 { rep.note("re-issue changed the payload; case not judged"); continue }
        rep.count("reissue_cases_judged", 1);
        rep.class(format!("reissue|first-deadline-later{}", r1.map(|r| r > early).unwrap_or(false) as u8));
        match r2 {
            Some(r) if r <= early => {}
            other => rep.violation("C39/refresh-after-expiry/unchanged-payload-reissued", format!(
                "second run: same payload, but the ROA {} of CA {c} was re-issued with notAfter {early}; the served data set's refresh deadline is {:?} (after the first run {:?})", w2.cas[c].objects[k].name, other, r1),
                json!({"world_run1": w1, "world_run2": w2, "ca": c, "object": k})),
        }
    }
}

fn run_c39(ctx: &mut Ctx, rep: &mut Report) {
    let mut rng = ctx.rng("c39");
    let mut b = match Builder::new() { Ok(b) => b, Err(e) => { rep.inconclusive(e); return } };
    if ctx.shard % 4 == 0 { c39_reissue_leg(ctx, rep, &mut b, &mut rng); }
    let n = ctx.tier.pick(40usize, 700);
    for i in 0..n {
        if !ctx.time_left() { rep.note("time budget reached"); break }
        let params = GenParams { tals: 1 + rng.usize(2), max_cas: 2 + rng.usize(6), max_depth: 1 + rng.usize(3), max_objects: 1 + rng.usize(4), repos: 2, obj_faults: rng.usize(2), ..GenParams::default() };
        let mut w = generate(&mut rng, now_ts(), &params);
        let now = w.now;
        let mut draw = |rng: &mut Rng| now + 7200 + rng.below(400 * DAY as u64) as Ts;
        for t in 0..w.tals.len() { w.tals[t].ta_na = draw(&mut rng); }
        for c in 0..w.cas.len() {
            w.cas[c].mft_next = draw(&mut rng); w.cas[c].mft_ee_na = draw(&mut rng); w.cas[c].crl_next = draw(&mut rng);
            for o in 0..w.cas[c].objects.len() { if w.cas[c].objects[o].fault.is_none() || w.cas[c].objects[o].fault == Some(Fault::BadSignature) { w.cas[c].objects[o].na = draw(&mut rng); } }
        }
        let pol = Policy::default();
        let mut env = Env::new(&ctx.scratch.join("env"));
        pol.apply(&mut env.config);
        env.serve(&b.publish(&w));
        ctx.begin_case(&json!({"case": i}));
        let out = run_engine(&env.config, true, &LocalExceptions::empty());
        rep.eval();
        let replay = json!({"world": w});
        let Some(snap) = out.snapshot else { rep.inconclusive("run failed"); continue };
        let e = expect_fresh(&w, w.now, &pol);
        // bound
        let mut bound: Option<(Ts, String)> = None;
        for ca in &e.accepted {
            // chain terms
            let mut chain: Vec<(Ts, String)> = Vec::new();
            let mut c = *ca;
            loop {
                chain.push((w.cas[c].mft_next, "mft-nextUpdate".into()));
                chain.push((w.cas[c].mft_ee_na, "mft-ee-notAfter".into()));
                chain.push((w.cas[c].crl_next, "crl-nextUpdate".into()));
                match w.cas[c].parent {
                    Some(p) => { let o = w.cas[p].objects.iter().find(|o| o.kind == ObjKind::ChildCa(c)).unwrap(); chain.push((o.na, "ca-cert-notAfter".into())); c = p; }
                    None => { chain.push((w.tals[w.cas[c].tal].ta_na, "ta-notAfter".into())); break }
                }
            }
            for o in &w.cas[*ca].objects {
                if !object_valid(o, now) { continue }
                let contributes = match &o.kind { ObjKind::Roa { .. } => true, ObjKind::Aspa { .. } => pol.enable_aspa, ObjKind::Router { .. } => pol.enable_bgpsec, _ => false };
                if !contributes { continue }
                let mut m = (o.na, "object-notAfter".to_string());
                for t in &chain { if t.0 < m.0 { m = t.clone() } }
                if bound.as_ref().map(|b| m.0 < b.0).unwrap_or(true) { bound = Some(m); }
            }
        }
        let o = observe(&snap);
        let has_payload = !o.vrps.is_empty() || !o.keys.is_empty() || !o.aspas.is_empty();
        match (snap.refresh(), &bound) {
            (Some(r), Some((bt, term))) => {
                if r.timestamp() > *bt {
                    rep.violation(format!("C39/refresh-after-expiry/{term}"), format!("refresh deadline {} is later than the earliest {term} {} of a contributing object's chain", r.timestamp(), bt), replay.clone());
                }
                rep.class(format!("binding:{term}"));
            }
            (None, Some((_, term))) if has_payload => rep.violation("C39/no-refresh-with-payload", format!("payload is served but the data set has no refresh deadline (binding term would be {term})"), replay.clone()),
            _ => { rep.count("worlds_without_contributing_objects", 1); }
        }
        if rep.samples.len() < 2 { if let Some((bt, term)) = &bound { rep.sample(json!({"refresh": snap.refresh().map(|r| r.timestamp()), "oracle_bound": bt, "binding_term": term})); } }
    }
}

//------------ C41 -----------------------------------------------------------

pub const C41: Check = Check {
    id: "C41",
    level: "exploration",
    rule: "metamorphic pairs on fresh caches: world W (several repositories) vs W' = W + a fault placed in one repository \
           (unreachable, every manifest of that repository absent/garbage/stale, bad objects, missing files, a chain of valid CAs deeper than max-ca-depth, a certificate loop, or - the repository being served via RRDP - a misbehaving RRDP server: wrong snapshot hash, 304 to an unconditional request, broken XML, wrong session, HTTP 500, truncated snapshot; or the same world run twice over one cache with the repository's local RRDP archive damaged in between: state record unparsable or missing, illegal object header, flipped data byte). For every CA not \
           published in that repository and not a descendant of one, the served per-CA payload (attribution by the generator's \
           per-CA origin AS ranges) must be identical in both runs (under unsafe-vrps=reject minus VRPs overlapping the affected \
           CAs' resources), and the faulty run must succeed. distinct = (fault kind, repositories, policy, affected/unaffected CA \
           counts) classes",
    assumptions: &["the damaged-local-archive leg (kind 8) changes bytes inside the archive's extent only and drives the second run the way the one-shot commands do (retryable failure -> Engine::sanitize -> one more run); a truncated archive is an I/O error, which Routinator treats as fatal by design (C27: 'ends the run with a reported error'), and is not exercised here"],
    shards: |_| 16,
    watchdog: |t| Duration::from_secs(t.pick(600, 3600)),
    budget: |t| Duration::from_secs(t.pick(40, 300)),
    run: run_c41,
    crash_is_violation: false,
    finish: None,
};

fn per_ca(o: &Observed) -> BTreeMap<usize, BTreeSet<Vrp>> {
    let mut m: BTreeMap<usize, BTreeSet<Vrp>> = BTreeMap::new();
    for v in &o.vrps { if let Some(c) = asn_block(v.4) { m.entry(c).or_default().insert(*v); } }
    m
}

/// Damages the RRDP archive(s) kept for `host` under `rrdp_dir` without changing their length: walks the object
/// sequence (magic 6, hash key 16, bucket count 8, index (buckets+1)*8, then objects of header 33 = size 8, next 8,
/// empty 1, name_len 8, data_len 8 followed by name, 32 bytes of meta and the data) and applies one of four faults.
/// Returns the fault's name.
fn corrupt_local_archive(rrdp_dir: &std::path::Path, host: &str, rng: &mut Rng) -> Option<String> {
    let mut files = Vec::new();
    for d in std::fs::read_dir(rrdp_dir).ok()?.flatten() {
        if !d.file_name().to_string_lossy().to_ascii_lowercase().contains(host) { continue }
        for f in std::fs::read_dir(d.path()).ok()?.flatten() { if f.path().is_file() { files.push(f.path()); } }
    }
    if files.is_empty() { return None }
    let mode = rng.usize(4);
    let mut done = None;
    for path in files {
        let mut data = std::fs::read(&path).ok()?;
        let u64_at = |d: &[u8], p: usize| -> Option<usize> { Some(u64::from_ne_bytes(d.get(p..p + 8)?.try_into().ok()?) as usize) };
        let buckets = u64_at(&data, 22)?;
        let mut pos = 30 + (buckets + 1) * 8;
        // (header position, name, data start, data length)
        let mut objs: Vec<(usize, Vec<u8>, usize, usize)> = Vec::new();
        while pos + 33 <= data.len() {
            let size = u64_at(&data, pos)?;
            let empty = data[pos + 16] != 0;
            let name_len = u64_at(&data, pos + 17)?; let data_len = u64_at(&data, pos + 25)?;
            if size < 33 || pos + size > data.len() { break }
            if !empty && pos + 33 + name_len + 32 + data_len <= data.len() {
                objs.push((pos, data[pos + 33..pos + 33 + name_len].to_vec(), pos + 33 + name_len + 32, data_len));
            }
            pos += size;
        }
        let state = objs.iter().position(|o| o.1 == b"state");
        let others: Vec<usize> = (0..objs.len()).filter(|i| Some(*i) != state && objs[*i].3 > 0).collect();
        let name = match mode {
            0 => { let s = state?; data[objs[s].2] = 0xee; "state-version-byte" }
            1 => { let s = state?; data[objs[s].0 + 33 + 4] ^= 0x20; "state-object-renamed" }
            2 => { if others.is_empty() { return None } let o = others[rng.usize(others.len())]; data[objs[o].0 + 16] = 2; "object-header-illegal-bool" }
            _ => { if others.is_empty() { return None } let o = others[rng.usize(others.len())]; let at = objs[o].2 + rng.usize(objs[o].3); data[at] ^= 0x41; "object-data-byte" }
        };
        std::fs::write(&path, &data).ok()?;
        done = Some(name.to_string());
    }
    done
}

fn run_c41(ctx: &mut Ctx, rep: &mut Report) {
    let fake = crate::net::https::FakeHttps::start().ok();
    let mut rng = ctx.rng("c41");
    let mut b = match Builder::new() { Ok(b) => b, Err(e) => { rep.inconclusive(e); return } };
    let n = ctx.tier.pick(24usize, 400);
    for i in 0..n {
        if !ctx.time_left() { rep.note("time budget reached"); break }
        let repos = 2 + rng.usize(3);
        let params = GenParams { tals: 1 + rng.usize(2), max_cas: 5 + rng.usize(8), max_depth: 1 + rng.usize(3), max_objects: 2 + rng.usize(4), repos, overlaps: rng.bool(), ..GenParams::default() };
        let w = generate(&mut rng, now_ts(), &params);
        let victim_repo = rng.usize(repos);
        let kind = rng.usize(9);
        // kind 7: the victim repository is an RRDP repository whose server misbehaves (both runs use RRDP for it)
        // kind 8: the victim repository is an RRDP repository whose *local archive* is damaged between two runs
        let mut w = w;
        if kind == 7 || kind == 8 { for c in w.cas.iter_mut() { if c.repo == victim_repo && c.parent.is_some() { c.rrdp = true; } } }
        let w = w;
        let mut w2 = w.clone();
        let in_repo: Vec<usize> = w.cas.iter().filter(|c| c.repo == victim_repo).map(|c| c.id).collect();
        if in_repo.is_empty() { continue }
        let mut max_ca_depth = 32usize;
        if kind == 5 {
            // content fault: the repository publishes a chain of otherwise valid CAs that goes deeper than max-ca-depth
            let top = in_repo[rng.usize(in_repo.len())];
            max_ca_depth = w.depth(top) + 1 + rng.usize(2);
            let mut p = top;
            for _ in 0..max_ca_depth - w.depth(top) + 1 + rng.usize(2) { p = add_child(&mut w2, &mut rng, p, victim_repo, 1); }
        }
        if kind == 6 {
            // content fault: the repository publishes a certificate for a key already on its own chain (a loop)
            let top = in_repo[rng.usize(in_repo.len())];
            let leaf = add_child(&mut w2, &mut rng, top, victim_repo, 1);
            let anc = { let mut chain = vec![top]; let mut p = top; while let Some(pp) = w2.cas[p].parent { chain.push(pp); p = pp; } chain[rng.usize(chain.len())] };
            add_cycle(&mut w2, leaf, anc);
        }
        for c in &in_repo {
            match kind {
                5 | 6 | 7 | 8 => {}
                0 => w2.cas[*c].unreachable = true,
                1 => apply_point_fault(&mut w2, *c, PointFault::MftAbsent, &mut rng),
                2 => apply_point_fault(&mut w2, *c, PointFault::MftStale, &mut rng),
                3 => { for o in 0..w2.cas[*c].objects.len() { let f = *rng.pick(&[Fault::Garbage, Fault::BadSignature, Fault::Expired]); apply_obj_fault(&mut w2, *c, o, f); } }
                _ => apply_point_fault(&mut w2, *c, PointFault::MissingFile, &mut rng),
            }
        }
        let pol = Policy { unsafe_vrps: *rng.pick(&[Filter::Accept, Filter::Reject]), stale: Filter::Reject, max_ca_depth, ..Policy::default() };
        let mut observed = Vec::new();
        let mut ok = true;
        let rrdp_fault = rng.usize(7);
        let mut archive_mode = String::new();
        if kind == 8 {
            // same world twice over one cache; between the runs the local RRDP archive of the victim repository
            // is damaged inside its extent.  The second run is driven like the one-shot commands drive it
            // (retryable failure -> sanitize -> one more run).
            let Some(fake) = fake.as_ref() else { rep.inconclusive("fake https not available"); continue };
            let vh = w.notify_host(victim_repo).to_ascii_lowercase();
            if (0..repos).any(|r| r != victim_repo && w.notify_host(r).to_ascii_lowercase() == vh) { continue }
            let mut env = Env::new(&ctx.scratch.join("env"));
            pol.apply(&mut env.config);
            env.config.validation_threads = 1 + rng.usize(4);
            let published = b.publish(&w);
            env.serve(&published);
            fake.clear();
            fake.configure(&mut env.config);
            env.config.rrdp_fallback = routinator::config::FallbackPolicy::Never;
            let mut servers = crate::world::rrdpserve::RrdpServers::default();
            servers.publish(&w, &published, fake, &BTreeMap::new());
            ctx.begin_case(&json!({"case": i, "which": 0, "kind": 8}));
            let out = run_engine(&env.config, true, &LocalExceptions::empty());
            match out.snapshot { Some(s) => observed.push(observe(&s)), None => { rep.inconclusive("baseline run failed"); continue } }
            match corrupt_local_archive(&env.config.cache_dir.join("rrdp"), &vh, &mut rng) {
                Some(m) => archive_mode = m,
                None => {
                    rep.count("local archive damaged: skipped, the victim repository holds trust anchors only (no RRDP archive)", 1); continue
                }
            }
            ctx.begin_case(&json!({"case": i, "which": 1, "kind": 8, "archive_fault": archive_mode}));
            let (out, retried) = run_engine_retrying(&env.config, &LocalExceptions::empty());
            archive_mode = format!("{archive_mode}|{}", if retried { "retried" } else { "no-retry" });
            rep.count(&format!("local archive damaged: {archive_mode}"), 1);
            match out.snapshot {
                Some(s) => observed.push(observe(&s)),
                None => {
                    ok = false;
                    rep.violation("C41/run-fails-on-corrupt-local-archive", format!(
                        "the run (with the retry the one-shot commands make) fails after the local RRDP archive of repository {victim_repo} was damaged ({archive_mode})"),
                        json!({"world": w, "victim_repo": victim_repo, "archive_fault": archive_mode}));
                }
            }
        }
        for (which, ww) in [(0, &w), (1, &w2)] {
            if kind == 8 { break }
            let mut env = Env::new(&ctx.scratch.join("env"));
            pol.apply(&mut env.config);
            env.config.validation_threads = 1 + rng.usize(4);
            let published = b.publish(ww);
            env.serve(&published);
            if kind == 7 {
                let Some(fake) = fake.as_ref() else { rep.inconclusive("fake https not available"); ok = false; break };
                fake.clear();
                fake.configure(&mut env.config);
                env.config.rrdp_fallback = routinator::config::FallbackPolicy::Never;
                let mut faults = BTreeMap::new();
                if which == 1 {
                    use crate::net::rrdp::Faults;
                    let f = match rrdp_fault {
                        0 => Faults { snapshot_wrong_hash: true, ..Default::default() },
                        1 => Faults { notify_status: Some(304), ..Default::default() },
                        2 => Faults { notify_broken_xml: true, ..Default::default() },
                        3 => Faults { snapshot_broken_xml: true, ..Default::default() },
                        4 => Faults { snapshot_wrong_session: true, ..Default::default() },
                        5 => Faults { snapshot_status: Some(500), ..Default::default() },
                        _ => Faults { snapshot_truncated: true, ..Default::default() },
                    };
                    faults.insert(victim_repo, f);
                }
                let mut servers = crate::world::rrdpserve::RrdpServers::default();
                servers.publish(ww, &published, fake, &faults);
            }
            ctx.begin_case(&json!({"case": i, "which": which}));
            let out = run_engine(&env.config, true, &LocalExceptions::empty());
            match out.snapshot { Some(s) => observed.push(observe(&s)), None => { ok = false; if which == 1 { rep.violation("C41/run-fails-on-broken-repository", "the run fails although only one repository is broken", json!({"world": ww})); } else { rep.inconclusive("baseline run failed"); } break } }
        }
        rep.eval();
        if !ok { continue }
        // affected = CAs in the repository and their descendants
        let affected: BTreeSet<usize> = (0..w.cas.len()).filter(|c| in_repo.contains(c) || in_repo.iter().any(|r| w.is_ancestor(*r, *c))).collect();
        let mut affected_blocks: BTreeSet<usize> = BTreeSet::new();
        for a in &affected { affected_blocks.extend(w.blocks(*a)); }
        let hits = |v: &Vrp| affected_blocks.iter().any(|bl| { let (bits, len) = if v.0 { block_v4(*bl) } else { block_v6(*bl) }; overlaps(v.1, v.2, bits, len) });
        let a = per_ca(&observed[0]); let bb = per_ca(&observed[1]);
        let replay = json!({"world": w, "faulty_world": w2, "victim_repo": victim_repo, "policy": format!("{:?}", pol)});
        let mut unaffected = 0;
        for c in 0..w.cas.len() {
            if affected.contains(&c) { continue }
            unaffected += 1;
            let mut x = a.get(&c).cloned().unwrap_or_default();
            let mut y = bb.get(&c).cloned().unwrap_or_default();
            if pol.unsafe_vrps == Filter::Reject { x.retain(|v| !hits(v)); y.retain(|v| !hits(v)); }
            if x != y {
                let lost: Vec<String> = x.difference(&y).take(3).map(fmt_vrp).collect();
                let gained: Vec<String> = y.difference(&x).take(3).map(fmt_vrp).collect();
                rep.violation("C41/unrelated-ca-payload-changed", format!(
                    "payload of CA {c} (repository {}, not in or below repository {victim_repo}) differs when repository {victim_repo} is broken: lost {:?} gained {:?}",
                    w.cas[c].repo, lost, gained), replay.clone());
            }
        }
        rep.class(format!("kind{kind}{archive_mode}|repos{repos}|{:?}|aff{}|unaff{}", pol.unsafe_vrps, affected.len().min(4), unaffected.min(4)));
        let kind_s = ["unreachable", "manifests absent", "manifests stale", "all objects bad", "missing file", "CA chain deeper than max-ca-depth", "certificate loop", "RRDP server misbehaves", "local RRDP archive damaged between runs"][kind];
        if rep.samples.len() < 2 { rep.sample(json!({"fault_kind": kind_s, "victim_repo": victim_repo, "affected_cas": affected, "unaffected_cas": unaffected})); }
    }
}
