//! C32: failed runs are retried at most once (subprocess leg with forced
//! run outcomes), and C37: each repository is fetched at most once per run.

use std::collections::BTreeMap;
use std::path::Path;
use std::process::{Command, Stdio};
use std::time::{Duration, Instant};
use serde_json::json;
use routinator::slurm::LocalExceptions;
use crate::core::{Check, Ctx, Report};
use crate::hooks::{Action as HookAction, Hooks};
use crate::world::build::Builder;
use crate::world::oracle::*;
use crate::world::run::{fakersync_path, run_engine, Env};
use crate::world::spec::*;

pub const C32: Check = Check {
    id: "C32",
    level: "fault_enumeration",
    rule: "the real command-line entry point (routinator's main, public API only) runs in a subprocess for vrps, validate, update and \
           server with every sequence of forced run outcomes (ok / retryable / fatal) up to length 4 (quick: all sequences up to \
           length 3 plus longer server histories with successes between the failures) injected at the run's entry; a quarter of the failing one-shot cases additionally make the cache clean-up before the retry fail (the RRDP cache directory is removed at run start). Monitor: run.start events in a crash-safe event log + exit \
           status. Oracle: one-shot commands start at most 2 runs and exit non-zero after the second failure (zero only after a \
           successful run); the server starts no run after a fatal failure or after its second retryable failure of a regular run, \
           and then exits. The supervisor kills the process when a third (one-shot) or excess (server) run.start appears: the \
           verdict is the count, never a timeout; a 60 s watchdog without excess runs is inconclusive. exhaustive over the \
           sequences listed. distinct = (command, outcome sequence) pairs",
    assumptions: &["no TALs are configured so a non-forced run succeeds at once without network"],
    shards: |_| 8,
    watchdog: |t| Duration::from_secs(t.pick(600, 3600)),
    budget: |t| Duration::from_secs(t.pick(50, 300)),
    run: run_c32,
    crash_is_violation: false,
    finish: None,
};

fn write_conf(dir: &Path) -> std::path::PathBuf {
    let conf = dir.join("routinator.conf");
    let _ = std::fs::create_dir_all(dir.join("cache"));
    let _ = std::fs::create_dir_all(dir.join("tals"));
    std::fs::write(&conf, format!(
        "repository-dir = \"{}\"\nno-rir-tals = true\nextra-tals-dir = \"{}\"\nrsync-command = \"{}\"\nrsync-args = [\"--ctrl\", \"{}\"]\nlog = \"stderr\"\ndisable-rrdp = true\n",
        dir.join("cache").display(), dir.join("tals").display(), fakersync_path().display(), dir.join("ctrl").display())).unwrap();
    let _ = std::fs::create_dir_all(dir.join("ctrl/root"));
    conf
}

fn count_runs(log: &Path) -> usize {
    std::fs::read_to_string(log).unwrap_or_default().lines().filter(|l| l.split('\t').nth(1) == Some("run.start")).count()
}

struct Outcome { runs: usize, exit: Option<i32>, killed_for_excess: bool, watchdog: bool }

fn run_cmd(dir: &Path, cmd_args: &[String], outcomes: &[u8], max_runs: usize) -> Outcome { run_cmd_env(dir, cmd_args, outcomes, max_runs, false) }

/// `break_cleanup`: RRDP is enabled and the RRDP cache directory is removed at every run start, so that the cache
/// clean-up between a failed run and its retry fails too.
fn run_cmd_env(dir: &Path, cmd_args: &[String], outcomes: &[u8], max_runs: usize, break_cleanup: bool) -> Outcome {
    let conf = write_conf(dir);
    if break_cleanup {
        let text = std::fs::read_to_string(&conf).unwrap().replace("disable-rrdp = true", "disable-rrdp = false");
        std::fs::write(&conf, text).unwrap();
    }
    let log = dir.join("events.log");
    let _ = std::fs::remove_file(&log);
    let faults: Vec<String> = outcomes.iter().map(|o| if *o == 0 { "-".to_string() } else { o.to_string() }).collect();
    let exe = std::env::current_exe().unwrap();
    let mut c = Command::new(exe);
    c.arg("routinator").arg("-c").arg(&conf).args(cmd_args)
        .env("RV_FAULTS", format!("run.outcome={}", faults.join(",")))
        .env("RV_EVENT_LOG", &log).env("HOME", dir)
        .env("RV_RMDIR", if break_cleanup { format!("run.start:{}", dir.join("cache/rrdp").display()) } else { String::new() })
        .stdin(Stdio::null()).stdout(Stdio::null()).stderr(Stdio::null());
    let mut child = c.spawn().expect("spawn routinator");
    let start = Instant::now();
    let mut killed = false; let mut watchdog = false;
    let exit = loop {
        if let Ok(Some(st)) = child.try_wait() { break st.code() }
        if count_runs(&log) > max_runs { let _ = child.kill(); let _ = child.wait(); killed = true; break None }
        if start.elapsed() > Duration::from_secs(60) { let _ = child.kill(); let _ = child.wait(); watchdog = true; break None }
        std::thread::sleep(Duration::from_millis(5));
    };
    Outcome { runs: count_runs(&log), exit, killed_for_excess: killed, watchdog }
}

fn sequences(max_len: usize) -> Vec<Vec<u8>> {
    let mut out = vec![vec![]];
    let mut frontier: Vec<Vec<u8>> = vec![vec![]];
    for _ in 0..max_len {
        let mut next = Vec::new();
        for s in &frontier { for o in 0..3u8 { let mut t = s.clone(); t.push(o); next.push(t); } }
        out.extend(next.iter().cloned());
        frontier = next;
    }
    out
}

fn run_c32(ctx: &mut Ctx, rep: &mut Report) {
    let seqs = sequences(ctx.tier.pick(3, 4));
    let commands: Vec<(&str, Vec<String>)> = vec![
        ("vrps", vec!["vrps".into(), "-f".into(), "none".into()]),
        ("validate", vec!["validate".into(), "-p".into(), "10.0.0.0/8".into(), "-a".into(), "AS64500".into()]),
        ("update", vec!["update".into()]),
        ("server", vec![]),
    ];
    let mut cases = Vec::new();
    for (ci, _) in commands.iter().enumerate() { for s in &seqs { cases.push((ci, s.clone())); } }
    // Longer server histories where successful runs separate the failures (a retry budget that is re-armed by a
    // success shows only here).
    for s in [vec![0u8, 1, 0, 1], vec![1, 1, 0, 1], vec![0, 0, 1, 0, 1], vec![0, 1, 0, 0, 1], vec![0, 1, 0, 1, 0, 1], vec![0, 1, 0, 2]] {
        if !seqs.contains(&s) { cases.push((3, s)); }
    }
    let total = cases.len();
    for (idx, (ci, seq)) in cases.into_iter().enumerate() {
        if idx % ctx.shards != ctx.shard { continue }
        if !ctx.time_left() { rep.note(format!("time budget reached at case {idx} of {total}")); break }
        let (name, base_args) = &commands[ci];
        let dir = ctx.scratch.join("c32");
        let _ = std::fs::remove_dir_all(&dir);
        std::fs::create_dir_all(&dir).unwrap();
        ctx.begin_case(&json!({"command": name, "outcomes": seq}));
        let replay = json!({"command": name, "forced_outcomes(0=ok,1=retryable,2=fatal)": seq});
        rep.eval();
        if *name != "server" {
            // a quarter of the failing one-shot cases also have the cache clean-up between run and retry fail
            let break_cleanup = seq.first() == Some(&1) && seq.get(1) == Some(&1) && (idx % 2 == 1 || *name == "vrps");
            let o = run_cmd_env(&dir, base_args, &seq, 2, break_cleanup);
            if o.watchdog { rep.inconclusive(format!("{name} {:?}: watchdog without excess runs", seq)); continue }
            if o.killed_for_excess || o.runs > 2 {
                rep.violation(format!("C32/{name}/more-than-one-retry"), format!("'{name}' started {} validation runs for outcome sequence {:?} (more than one retry)", o.runs, seq), replay.clone());
            }
            // expected exit: success iff one of the (at most two) runs it may perform succeeded
            let first = seq.first().copied().unwrap_or(0);
            let second = seq.get(1).copied().unwrap_or(0);
            if !o.killed_for_excess {
                let code = o.exit.unwrap_or(-1);
                if first == 2 && code == 0 { rep.violation(format!("C32/{name}/success-after-fatal"), format!("'{name}' exited 0 although its run failed fatally ({:?})", seq), replay.clone()); }
                if first == 1 && second != 0 && code == 0 { rep.violation(format!("C32/{name}/success-after-two-failures"), format!("'{name}' exited 0 although both runs failed ({:?})", seq), replay.clone()); }
                if first == 0 && code != 0 { rep.violation(format!("C32/{name}/failure-after-success"), format!("'{name}' exited {code} although its run succeeded ({:?})", seq), replay.clone()); }
            }
            rep.class(format!("{name}|{:?}|runs{}|exit{:?}|cleanup-broken{}", seq, o.runs, o.exit, break_cleanup as u8));
        }
        else {
            let port = crate::srv::free_port();
            let args = vec!["server".to_string(), "--rtr".into(), format!("127.0.0.1:{port}"), "--refresh".into(), "1".into()];
            // Expected number of runs until the server must stop.
            let mut can_retry = true; let mut initial = true; let mut must_stop_after: Option<usize> = None;
            for (i, o) in seq.iter().enumerate() {
                let was_initial = initial; initial = false;
                match o { 0 => {}, 2 => { must_stop_after = Some(i + 1); break }
                    _ => { if was_initial { /* full run follows */ } else if can_retry { can_retry = false } else { must_stop_after = Some(i + 1); break } } }
            }
            let max_runs = must_stop_after.unwrap_or(seq.len() + 2);
            let o = run_cmd(&dir, &args, &seq, max_runs);
            match must_stop_after {
                Some(n) => {
                    if o.killed_for_excess || o.runs > n {
                        rep.violation("C32/server/run-after-final-failure", format!("server started run {} although it had to shut down after run {n} of outcome sequence {:?}", o.runs, seq), replay.clone());
                    }
                    else if o.watchdog { rep.inconclusive(format!("server {:?}: did not exit within the watchdog after {} runs", seq, o.runs)); }
                    else if o.exit == Some(0) { rep.violation("C32/server/success-exit-after-failure", format!("server exited 0 after failing ({:?})", seq), replay.clone()); }
                }
                None => {
                    // must keep running: it is killed by us for "excess" once it passed the sequence
                    if !o.killed_for_excess && !o.watchdog { rep.violation("C32/server/exited-without-final-failure", format!("server exited ({:?}) after {} runs although outcome sequence {:?} allows it to continue", o.exit, o.runs, seq), replay.clone()); }
                }
            }
            rep.class(format!("server|{:?}|runs{}|stop{:?}", seq, o.runs, must_stop_after));
        }
        if rep.samples.len() < 3 { rep.sample(replay); }
    }
    rep.max("max_sequences_total", total as u64);
}

//------------ C37 -----------------------------------------------------------

pub const C37: Check = Check {
    id: "C37",
    level: "exploration",
    rule: "worlds where 6-20 sibling CAs share one or two rsync modules different from their parent's, 2-16 validation threads, a slow \
           fake rsync (5-40 ms) and an injected delay at the hook between releasing the in-progress marker and recording completion; every \
           third case serves the shared repositories via RRDP instead (slow notification answers, delay at the hook before the update \
           result is recorded; oracle: at most one notification request per repository and run, from the fake HTTPS log). \
           Only successful runs on fresh caches are judged; in a quarter of the rsync cases one shared module fails (non-zero exit) and must still be tried once only. Monitors: the fake rsync's invocation log (start/end on CLOCK_MONOTONIC, \
           module, pid) and the collector's read events (hook, same clock). Oracle: per run and module at most one invocation; every \
           read of a file of a module happens after the end of that module's (first) fetch; payload equals the oracle's. distinct = \
           (threads, siblings, modules, window-delay) classes; the number of runs in which a second thread arrived inside the \
           window is reported",
    assumptions: &["HTTPS trust-anchor downloads are documented as per-call and are not counted"],
    shards: |_| 8,
    watchdog: |t| Duration::from_secs(t.pick(600, 3600)),
    budget: |t| Duration::from_secs(t.pick(45, 300)),
    run: run_c37,
    crash_is_violation: false,
    finish: None,
};

fn run_c37(ctx: &mut Ctx, rep: &mut Report) {
    let hooks = Hooks::install();
    let mut rng = ctx.rng("c37");
    let mut b = match Builder::new() { Ok(b) => b, Err(e) => { rep.inconclusive(e); return } };
    let n = ctx.tier.pick(30usize, 400);
    let fake = crate::net::https::FakeHttps::start().ok();
    for i in 0..n {
        if !ctx.time_left() { rep.note("time budget reached"); break }
        let tals = 3 + rng.usize(6);
        let per_tal = 1 + rng.usize(4);
        let siblings = tals * per_tal;
        let modules = 1 + rng.usize(3);
        // Several TALs (the engine's parallelism is per TAL plus deferred CA tasks): each TA lives in its own
        // repository (100+t, staggered speed), its children in the shared modules 1..=modules.
        let now = chrono::Utc::now().timestamp();
        let mut w = World { now, tals: Vec::new(), cas: Vec::new(), host_override: Default::default(), notify_host_override: Default::default(), ca_dir_override: Default::default() };
        for t in 0..tals {
            let one = gen_chain(&mut rng, now, 0, 1);
            let root = w.cas.len();
            let mut c = one.cas[0].clone();
            c.id = root; c.tal = t; c.repo = 100 + t; c.key = root % crate::world::keys::CA_KEYS;
            c.objects = Vec::new();
            w.cas.push(c);
            w.tals.push(Tal { name: format!("tal{t}"), root, uris: vec![TaState::Good], ta_nb: now - YEAR, ta_na: now + YEAR });
        }
        for t in 0..tals {
            let root = w.tals[t].root;
            for s in 0..per_tal {
                let id = w.cas.len();
                let mut c = w.cas[root].clone();
                c.id = id; c.parent = Some(root); c.key = (id + 7) % crate::world::keys::CA_KEYS; c.repo = 1 + (t + s) % modules; c.objects = Vec::new();
                if c.key == w.cas[root].key { c.key = (c.key + 1) % crate::world::keys::CA_KEYS; }
                w.cas.push(c);
                let serial = 800 + s as u64;
                w.cas[root].objects.push(Obj { name: format!("ca{id}.cer"), kind: ObjKind::ChildCa(id), serial, nb: now - DAY, na: now + 50 * DAY, fault: None, salt: 0 });
                for k in 0..1 + rng.usize(6) { let o = gen_object(&mut rng, now, id, &[id], k, 100 + k as u64); w.cas[id].objects.push(o); }
            }
        }
        let threads = 2 + rng.usize(15);
        let window = [0u64, 2, 10, 25][rng.usize(4)];
        let rsync_delay = 5 + rng.below(36);
        #[allow(unused_mut)]
        let mut env = Env::new(&ctx.scratch.join("env"));
        env.config.validation_threads = threads;
        std::fs::write(env.ctrl.join("delay_ms"), rsync_delay.to_string()).unwrap();
        // staggered per-module delays so that threads released by one module arrive while another is finishing
        for m in (1..=modules).chain(100..100 + tals) {
            let d = env.ctrl.join(format!("delay/r{m}.rpki.test"));
            std::fs::create_dir_all(&d).unwrap();
            let ms = if m >= 100 { rng.below(30) } else { rsync_delay + (m as u64 - 1) * (3 + rng.below(12)) };
            std::fs::write(d.join("repo"), ms.to_string()).unwrap();
        }
        // Host names are case-insensitive: in a third of the rsync cases half of the CAs of module 1 spell its host with
        // capitals (it is still one module, to be fetched once).
        if i % 3 == 0 {
            w.host_override.insert(50, "R1.Rpki.TEST".to_string());
            let mut flip = false;
            for c in w.cas.iter_mut() { if c.repo == 1 && c.parent.is_some() { if flip { c.repo = 50; } flip = !flip; } }
        }
        // In a quarter of the rsync cases one shared module fails (rsync exits non-zero): it must still be tried only once,
        // however many CAs live in it.
        let failing_repo = if i % 3 != 2 && rng.chance(1, 4) { Some(1 + rng.usize(modules)) } else { None };
        if let Some(fr) = failing_repo { for c in w.cas.iter_mut() { if c.repo == fr || (fr == 1 && c.repo == 50) { c.unreachable = true; } } }
        // Every third case publishes the shared repositories via RRDP instead (same oracle on the notification requests).
        let via_rrdp = i % 3 == 2;
        if via_rrdp { for c in w.cas.iter_mut() { if c.parent.is_some() { c.rrdp = true; } } }
        let published = b.publish(&w);
        env.serve(&published);
        let mut servers = crate::world::rrdpserve::RrdpServers::default();
        if via_rrdp {
            let Some(fake) = fake.as_ref() else { rep.inconclusive("fake https not available"); continue };
            fake.clear();
            fake.configure(&mut env.config);
            env.config.rrdp_fallback = routinator::config::FallbackPolicy::Never;
            servers.publish(&w, &published, fake, &BTreeMap::new());
            // slow notification answers so that several CAs are waiting for the same repository
            let mut s = fake.script.lock().unwrap();
            for (k, r) in s.replies.iter_mut() { if k.ends_with("notification.xml") { r.delay_ms = rsync_delay; } }
            drop(s);
            fake.take_log();
        }
        hooks.set_action("rrdp.before_record_update", if window == 0 { None } else { Some(HookAction::Sleep(Duration::from_millis(window))) });
        hooks.set_action("rsync.between_running_and_updated", if window == 0 { None } else { Some(HookAction::Sleep(Duration::from_millis(window))) });
        hooks.take_events();
        ctx.begin_case(&json!({"case": i, "siblings": siblings, "threads": threads}));
        let out = run_engine(&env.config, true, &LocalExceptions::empty());
        rep.eval();
        let events = hooks.take_events();
        let replay = json!({"siblings": siblings, "modules": modules, "threads": threads, "window_ms": window, "rsync_delay_ms": rsync_delay, "seed": ctx.seed, "shard": ctx.shard, "case": i});
        let Some(snap) = out.snapshot else { rep.inconclusive("run failed; not judged"); continue };
        // fetch log
        let log = env.rsync_log();
        let mut per_module: BTreeMap<String, Vec<(u128, u128)>> = BTreeMap::new();
        for l in &log {
            // one module however its host is spelled
            let m = l["module"].as_str().unwrap_or("").to_string();
            let m = match m.split_once('/') { Some((h, rest)) => format!("{}/{}", h.to_ascii_lowercase(), rest), None => m.to_ascii_lowercase() };
            per_module.entry(m).or_default().push((l["start"].as_u64().unwrap_or(0) as u128, l["end"].as_u64().unwrap_or(0) as u128));
        }
        if via_rrdp {
            let mut per_repo: BTreeMap<String, usize> = BTreeMap::new();
            for l in fake.as_ref().map(|f| f.take_log()).unwrap_or_default() {
                if l.method == "GET" && l.path.ends_with("notification.xml") { *per_repo.entry(l.host.clone()).or_default() += 1; }
            }
            rep.count("rrdp_notification_requests_seen", per_repo.values().sum::<usize>() as u64);
            if per_repo.is_empty() { rep.inconclusive("RRDP case without any notification request"); }
            for (h, n) in &per_repo {
                if *n > 1 { rep.violation("C37/rrdp-repository-fetched-twice", format!("the notification of RRDP repository {h} was requested {n} times in one run ({threads} threads, {siblings} sibling CAs, window delay {window} ms)"), replay.clone()); }
            }
            rep.max("max_rrdp_window_passages_per_run", events.iter().filter(|e| e.name == "rrdp.before_record_update").count() as u64);
        }
        rep.count("rsync_invocations_seen", log.len() as u64);
        rep.count("read_events_seen", events.iter().filter(|e| e.name == "rsync.load_file").count() as u64);
        for (m, v) in &per_module {
            if v.len() > 1 {
                rep.violation("C37/rsync-module-fetched-twice", format!("module {m} was fetched {} times in one run ({} threads, {} sibling CAs, window delay {window} ms)", v.len(), threads, siblings), replay.clone());
            }
        }
        // reads after the end of the fetch
        for e in events.iter().filter(|e| e.name == "rsync.load_file") {
            let uri = e.detail.trim_start_matches("rsync://");
            let mut parts = uri.splitn(3, '/');
            let module = format!("{}/{}", parts.next().unwrap_or("").to_ascii_lowercase(), parts.next().unwrap_or(""));
            match per_module.get(&module) {
                Some(v) => { let first_end = v.iter().map(|x| x.1).min().unwrap(); if e.mono < first_end { rep.violation("C37/read-before-fetch-finished", format!("{} was read {} ns before the fetch of {module} had finished", e.detail, first_end - e.mono), replay.clone()); } }
                None => rep.violation("C37/read-without-fetch", format!("{} was read but module {module} was never fetched in this run", e.detail), replay.clone()),
            }
        }
        let pol = Policy::default();
        let e = expect_fresh(&w, w.now, &pol);
        let (su, mi) = compare(&e, &observe(&snap), &super::worlds::ec_hex(&b));
        if !su.is_empty() || !mi.is_empty() { rep.violation("C37/payload-differs", format!("payload differs from the oracle: surplus {:?} missing {:?}", su.iter().take(2).collect::<Vec<_>>(), mi.iter().take(2).collect::<Vec<_>>()), replay.clone()); }
        // how contended was it?
        let arrivals = events.iter().filter(|e| e.name == "rsync.between_running_and_updated").count();
        rep.class(format!("t{}|s{}|m{}|w{}|failing{}", threads.min(8), siblings / 5, modules, window, failing_repo.is_some() as u8));
        if failing_repo.is_some() { rep.count("cases_with_failing_module", 1); }
        rep.max("max_window_passages_per_run", arrivals as u64);
        if rep.samples.len() < 2 { rep.sample(json!({"threads": threads, "siblings": siblings, "modules": modules, "fetches": per_module.iter().map(|(k, v)| (k.clone(), v.len())).collect::<BTreeMap<_, _>>()})); }
    }
    hooks.set_action("rsync.between_running_and_updated", None);
    hooks.set_action("rrdp.before_record_update", None);
    Hooks::uninstall();
}
