//! History-based world properties on one cache: C03 (one consistent object
//! set per publication point), C04 (store holds only complete verified
//! points), C05 (no manifest rollback).

use std::collections::{BTreeMap, BTreeSet};
use std::time::Duration;
use serde_json::json;
use routinator::slurm::LocalExceptions;
use routinator::store::StoredPoint;
use crate::core::{Check, Ctx, Report, Rng, Tier};
use crate::world::build::Builder;
use crate::world::history::{Decision, HistModel};
use crate::world::oracle::*;
use crate::world::run::{run_engine, Env};
use crate::world::spec::*;
use super::worlds::ec_hex;

fn now_ts() -> i64 { chrono::Utc::now().timestamp() }

/// The marker VRP of (ca, version).
pub fn marker(ca: usize, version: usize) -> Obj {
    let bits = (((10u32 << 24) | ((ca as u32 & 0xff) << 16) | ((version as u32 & 0xff) << 8)) as u128) << 96;
    Obj { name: "marker.roa".into(), kind: ObjKind::Roa { asn: block_as(ca).0 + 50, prefixes: vec![Pfx { v4: true, bits, len: 24, max: None }] },
        serial: 20_000 + version as u64, nb: 0, na: 0, fault: None, salt: 0 }
}

pub fn marker_version(v: &Vrp) -> Option<(usize, usize)> {
    if v.0 && v.2 == 24 && v.4 % 100 == 50 { let a = (v.1 >> 96) as u32; if a >> 24 == 10 { return Some((((a >> 16) & 0xff) as usize, ((a >> 8) & 0xff) as usize)) } }
    None
}

#[derive(Clone, Copy, PartialEq)]
pub enum Emphasis { Incomplete, FetchFaults, Ordering, Mixed }

/// Produces the next world version from the previous one.
pub fn evolve(prev: &World, version: usize, rng: &mut Rng, em: Emphasis) -> World {
    let mut w = prev.clone();
    let now = w.now;
    for c in 0..w.cas.len() {
        // clear last version's faults
        w.cas[c].point_faults.clear();
        w.cas[c].unreachable = false;
        for o in w.cas[c].objects.iter_mut() { if o.fault.is_some() && !matches!(o.kind, ObjKind::ChildCa(_)) { o.fault = None; o.nb = now - DAY; o.na = now + 60 * DAY; } }
        if version > 0 && rng.chance(1, 4) { continue }      // unchanged publication point
        // new manifest number / thisUpdate relation
        let (dn, dt): (i64, i64) = match em {
            Emphasis::Ordering => *rng.pick(&[(1, 120), (1, 120), (0, 120), (1, 0), (-1, 120), (1, -120), (-2, -240), (5, 600), (0, 0)]),
            // mostly a plainly newer version; now and then one whose number or time does not advance
            Emphasis::Incomplete => *rng.pick(&[(1, 120), (1, 120), (1, 120), (1, 120), (1, 0), (0, 120), (2, 60)]),
            _ => (1, 120),
        };
        let cc = &mut w.cas[c];
        cc.mft_number = (cc.mft_number as i64 + dn).max(1) as u64;
        cc.mft_this += dt; cc.crl_this = cc.mft_this; cc.mft_ee_nb = cc.mft_this - 60;
        cc.mft_serial += 1;
        // objects: replace marker, sometimes add/remove others
        // the replaced marker's EE certificate is revoked by the new version's CRL, as a CA does with what it replaces
        if let Some(old) = cc.objects.iter().find(|o| o.name == "marker.roa") { let s = old.serial; if !cc.also_revoked.contains(&s) { cc.also_revoked.push(s); } }
        if cc.also_revoked.len() > 6 { cc.also_revoked.remove(0); }
        cc.objects.retain(|o| o.name != "marker.roa");
        let mut m = marker(c, version); m.nb = now - DAY; m.na = now + 50 * DAY;
        cc.objects.push(m);
        if rng.chance(1, 3) {
            let blocks = vec![c];
            let serial = 30_000 + version as u64 * 10;
            let mut o = gen_object(rng, now, c, &blocks, 0, serial);
            o.name = format!("v{version}-{}", o.name);
            cc.objects.push(o);
        }
        if rng.chance(1, 4) {
            if let Some(i) = cc.objects.iter().position(|o| !matches!(o.kind, ObjKind::ChildCa(_)) && o.name != "marker.roa") { cc.objects.remove(i); }
        }
    }
    // faults for this version
    if version > 0 {
        for c in 0..w.cas.len() {
            let em = if em == Emphasis::Mixed { if rng.bool() { Emphasis::Incomplete } else { Emphasis::FetchFaults } } else { em };
            match em {
                Emphasis::Incomplete => if rng.chance(1, 2) { let f = *rng.pick(&[PointFault::MissingFile, PointFault::WrongHash]); apply_point_fault(&mut w, c, f, rng); },
                Emphasis::FetchFaults => if rng.chance(1, 2) {
                    match rng.usize(6) {
                        0 => w.cas[c].unreachable = true,
                        1 => { let o = rng.usize(w.cas[c].objects.len().max(1)); if o < w.cas[c].objects.len() && !matches!(w.cas[c].objects[o].kind, ObjKind::ChildCa(_)) { let f = OBJ_FAULTS[rng.usize(OBJ_FAULTS.len())]; let f = if f == Fault::Overclaim && matches!(w.cas[c].objects[o].kind, ObjKind::Gbr | ObjKind::Unknown) { Fault::Garbage } else { f }; apply_obj_fault(&mut w, c, o, f); } }
                        _ => { let f = POINT_FAULTS[rng.usize(POINT_FAULTS.len())]; apply_point_fault(&mut w, c, f, rng); }
                    }
                },
                Emphasis::Ordering | Emphasis::Mixed => {}
            }
        }
        // a module is unreachable as a whole
        let bad: BTreeSet<usize> = w.cas.iter().filter(|c| c.unreachable).map(|c| c.repo).collect();
        for c in w.cas.iter_mut() { if bad.contains(&c.repo) { c.unreachable = true } }
    }
    w
}

/// Reads every stored point below the cache's stored directory.
/// Returns ca_repository -> (manifest bytes, number-as-u64 if small, this_update ts, objects uri->content).
pub fn read_store(dir: &std::path::Path) -> BTreeMap<String, (Vec<u8>, u64, i64, BTreeMap<String, Vec<u8>>)> {
    let mut out = BTreeMap::new();
    fn rec(p: &std::path::Path, out: &mut BTreeMap<String, (Vec<u8>, u64, i64, BTreeMap<String, Vec<u8>>)>) {
        let Ok(rd) = std::fs::read_dir(p) else { return };
        for e in rd.flatten() {
            let p = e.path();
            if p.is_dir() { rec(&p, out); continue }
            if let Some(mut sp) = StoredPoint::load_quietly(p.clone()) {
                let Some(m) = sp.manifest().cloned() else { continue };
                let mut objs = BTreeMap::new();
                for o in &mut sp { if let Ok(o) = o { objs.insert(o.uri.to_string(), o.content.to_vec()); } else { objs.insert("<unreadable>".into(), vec![]); } }
                let num = { let a = m.manifest_number.into_array(); u64::from_be_bytes(a[12..20].try_into().unwrap()) };
                out.insert(m.ca_repository.to_string(), (m.manifest.to_vec(), num, m.this_update.timestamp(), objs));
            }
        }
    }
    rec(&dir.join("cache/stored/rsync"), &mut out);
    rec(&dir.join("cache/stored/rrdp"), &mut out);
    out
}

pub fn run_hist(ctx: &mut Ctx, rep: &mut Report, prop: &'static str, em: Emphasis) {
    let mut rng = ctx.rng(prop);
    let mut b = match Builder::new() { Ok(b) => b, Err(e) => { rep.inconclusive(e); return } };
    let histories = ctx.tier.pick(10usize, 200);
    for h in 0..histories {
        if !ctx.time_left() { rep.note("time budget reached"); break }
        let params = GenParams { tals: 1, max_cas: 2 + rng.usize(5), max_depth: 1 + rng.usize(2), max_objects: 1 + rng.usize(3), repos: 1 + rng.usize(2), ..GenParams::default() };
        let base = generate(&mut rng, now_ts(), &params);
        let pol = Policy { stale: *rng.pick(&[Filter::Reject, Filter::Warn, Filter::Accept]), ..Policy::default() };
        let mut env = Env::new(&ctx.scratch.join("env"));
        pol.apply(&mut env.config);
        env.config.dirty_repository = true;   // cleanup is C40's business
        env.config.validation_threads = 1 + rng.usize(4);
        let mut model = HistModel::new();
        let steps = 2 + rng.usize(ctx.tier.pick(4, 5));
        let mut w = base.clone();
        let mut stored_numbers: BTreeMap<String, (u64, i64)> = BTreeMap::new();
        let mut trace: Vec<String> = Vec::new();
        // Ordering histories also move the wall clock: a version with a short-lived manifest/CRL is stored, the clock
        // passes its nextUpdate, and the server then offers an older (or equal-numbered) manifest that is still current.
        let mut offset: i64 = 0;
        let mut short_lived: Option<usize> = None;
        let long_next = base.cas[0].mft_next;
        for k in 0..steps {
            w = evolve(&w, k, &mut rng, em);
            if em == Emphasis::Ordering {
                if let Some(c) = short_lived.take() {
                    // the previous step stored a short-lived version of CA c: its time is up now
                    offset += 3 * 3600;
                    let cc = &mut w.cas[c];
                    cc.mft_next = long_next; cc.crl_next = long_next;
                }
                else if k + 1 < steps && rng.chance(1, 3) {
                    let c = rng.usize(w.cas.len());
                    if w.cas[c].alias_of.is_none() && w.cas[c].point_faults.is_empty() {
                        let cc = &mut w.cas[c];
                        cc.mft_next = w.now + offset + 3600; cc.crl_next = cc.mft_next;
                        short_lived = Some(c);
                    }
                }
            }
            for c in &w.cas { if c.objects.iter().any(|o| o.name.ends_with(".crl")) { rep.count("ca_steps_with_stray_crl", 1); if c.point_faults.contains(&PointFault::WrongHash) { rep.count("ca_steps_with_stray_crl_and_wrong_hash", 1); } } if c.point_faults.contains(&PointFault::WrongHash) { rep.count("ca_steps_with_wrong_hash", 1); } }
            for c in &w.cas { if c.point_faults.contains(&PointFault::WrongHash) && c.objects.get(c.fault_target).map(|o| o.name.ends_with(".crl")).unwrap_or(false) { rep.count("steps_with_wrong_hash_on_stray_crl", 1); } }
            crate::clock::set_offset(offset);
            // C03: repeat the same step several times with different shuffles? The engine shuffles itself.
            let p = b.publish(&w);
            env.serve(&p);
            ctx.begin_case(&json!({"history": h, "step": k, "clock_offset": offset}));
            let out = run_engine(&env.config, true, &LocalExceptions::empty());
            crate::clock::set_offset(0);
            let e = model.step(w.clone(), p.clone(), w.now + offset, &pol, true);
            rep.eval();
            trace.push(format!("step {k}: {:?}", model.decisions));
            let replay = json!({"base_world": base, "emphasis": em as u8 as u64, "steps_so_far": k + 1, "decisions": trace, "last_world": w, "policy": format!("{:?}", pol), "seed": ctx.seed, "shard": ctx.shard});
            let Some(snap) = out.snapshot else { rep.inconclusive("run failed"); break };
            let o = observe(&snap);
            let (surplus, missing) = compare(&e, &o, &ec_hex(&b));
            // per-CA mixture detection through marker VRPs
            let mut markers: BTreeMap<usize, BTreeSet<usize>> = BTreeMap::new();
            for v in &o.vrps { if let Some((c, ver)) = marker_version(v) { markers.entry(c).or_default().insert(ver); } }
            match prop {
                "C03" => {
                    for (c, vers) in &markers {
                        if vers.len() > 1 {
                            rep.violation("C03/mixture-of-two-manifests", format!(
                                "CA {c} contributes payload of versions {:?} in one run (model decision: {:?}); objects of an abandoned update appear alongside stored ones", vers, model.decisions.get(c)), replay.clone());
                        }
                    }
                    for s in surplus.iter().take(2) {
                        let c = item_ca(s);
                        if c.map(|c| markers.get(&c).map(|m| m.len() > 1).unwrap_or(false)).unwrap_or(false) { continue }
                        if let Some(c) = c { if matches!(model.decisions.get(&c), Some(Decision::Stored(_, "incomplete"))) {
                            rep.violation("C03/mixture-of-two-manifests", format!("CA {c}: item {s} belongs to the abandoned fetched version, not to the stored one that was used"), replay.clone()); continue } }
                        rep.violation("C03/surplus-item", format!("served but not expected: {s} (decisions {:?})", model.decisions), replay.clone());
                    }
                    for m in missing.iter().take(2) { rep.violation("C03/missing-item", format!("expected but not served: {m} (decisions {:?})", model.decisions), replay.clone()); }
                }
                "C01" => {
                    for s in surplus.iter().take(2) { rep.violation("C01/unvalidated-payload-served/history", format!("served but not carried by the publication point version in effect: {s} (decisions {:?})", model.decisions), replay.clone()); }
                }
                "C02" => {
                    for m in missing.iter().take(2) { rep.violation("C02/valid-payload-dropped/history", format!("expected from the publication point version in effect but not served: {m} (decisions {:?})", model.decisions), replay.clone()); }
                }
                _ => {
                    for s in surplus.iter().take(2) { rep.violation(format!("{prop}/surplus-item"), format!("served but not expected: {s} (decisions {:?})", model.decisions), replay.clone()); }
                    for m in missing.iter().take(2) { rep.violation(format!("{prop}/missing-item"), format!("expected but not served: {m} (decisions {:?})", model.decisions), replay.clone()); }
                }
            }
            // store read-back (C04, C05)
            if prop == "C04" || prop == "C05" {
                let store = read_store(&env.dir);
                for (c, sv) in &model.stored {
                    let key = w.ca_repository(*c);
                    match store.get(&key) {
                        None => rep.violation(format!("{prop}/stored-point-missing"), format!("model says CA {c} has stored version {} but no stored point holds it", sv.version), replay.clone()),
                        Some((mft, num, this, objs)) => {
                            if mft != sv.manifest.as_ref() {
                                rep.violation(format!("{prop}/stored-manifest-differs"), format!("stored manifest of CA {c} is not the manifest of version {} the model expects (stored number {num})", sv.version), replay.clone());
                            }
                            let exp: BTreeMap<String, Vec<u8>> = sv.files.iter().map(|(k, v)| (k.clone(), v.to_vec())).collect();
                            if *objs != exp {
                                let extra: Vec<_> = objs.keys().filter(|k| !exp.contains_key(*k)).take(3).collect();
                                let miss: Vec<_> = exp.keys().filter(|k| !objs.contains_key(*k)).take(3).collect();
                                let diff: Vec<_> = exp.iter().filter(|(k, v)| objs.get(*k).map(|x| x != *v).unwrap_or(false)).map(|x| x.0).take(3).collect();
                                rep.violation(format!("{prop}/stored-objects-differ"), format!("stored objects of CA {c} differ from the files listed by its stored manifest: extra {:?} missing {:?} different {:?}", extra, miss, diff), replay.clone());
                            }
                            // monotonicity
                            if let Some((pn, pt)) = stored_numbers.get(&key) {
                                if num < pn || this < pt {
                                    rep.violation("C05/stored-manifest-rolled-back", format!("stored manifest of CA {c} went from number {pn}/thisUpdate {pt} to {num}/{this}"), replay.clone());
                                }
                            }
                            stored_numbers.insert(key, (*num, *this));
                        }
                    }
                }
                for (k, _) in &store {
                    if !model.stored.iter().any(|(c, _)| w.ca_repository(*c) == *k) {
                        rep.violation(format!("{prop}/unexpected-stored-point"), format!("a stored point for {k} exists although no complete valid version was ever fetched"), replay.clone());
                    }
                }
                rep.count("stored_points_read_back", store.len() as u64);
            }
            // offline follow-up run must give P(stored)
            if prop == "C04" && rng.chance(1, 2) {
                let out2 = run_engine(&env.config, false, &LocalExceptions::empty());
                let mut m2 = HistModel::new();
                m2.versions = model.versions.clone(); m2.stored = model.stored.clone(); m2.copy = model.copy.clone();
                let e2 = m2.step(w.clone(), p.clone(), w.now, &pol, false);
                if let Some(s2) = out2.snapshot {
                    let (su, mi) = compare(&e2, &observe(&s2), &ec_hex(&b));
                    for s in su.iter().take(2) { rep.violation("C04/offline-run-surplus", format!("offline run serves {s} which is not in the stored versions"), replay.clone()); }
                    for m in mi.iter().take(2) { rep.violation("C04/offline-run-missing", format!("offline run lacks {m} which the stored versions carry"), replay.clone()); }
                    rep.count("offline_runs_checked", 1);
                } else { rep.violation("C04/offline-run-failed", "offline run on the stored data failed", replay.clone()); }
            }
            // classes: decisions seen
            for d in model.decisions.values() {
                let cls = match d { Decision::Fetched(_) => "fetched".to_string(), Decision::Stored(_, r) => format!("stored:{r}"), Decision::Rejected(r) => format!("rejected:{r}"), Decision::Unreached => "unreached".into() };
                rep.class(format!("{cls}|stale{:?}", pol.stale));
            }
        }
        if rep.samples.len() < 2 { rep.sample(json!({"cas": base.cas.len(), "steps": steps, "decisions": trace})); }
    }
    let _ = Tier::Quick;
}

pub const C03: Check = Check {
    id: "C03",
    level: "exploration",
    rule: "histories of 2-6 versions per CA on one cache where newer versions are made incomplete (a listed file missing or with a \
           wrong hash, at a random manifest position; the engine itself shuffles the processing order, runs are repeated over many \
           seeds) while an older complete version is stored. Every version carries a marker VRP unique to (CA, version). Oracle: \
           per CA the served payload equals P(fetched version) or P(stored version) as the history model decides, never items of \
           both; a CA contributing markers of two versions is the witness of a mixture. distinct = (model decision with reason, \
           stale policy) classes",
    assumptions: &["the history model (module copies, store) follows the statement of C03-C05; it was self-validated on the unchanged tree"],
    shards: |_| 16,
    watchdog: |t| Duration::from_secs(t.pick(600, 3600)),
    budget: |t| Duration::from_secs(t.pick(40, 300)),
    run: |c, r| run_hist(c, r, "C03", Emphasis::Incomplete),
    crash_is_violation: false,
    finish: None,
};

pub const C04: Check = Check {
    id: "C04",
    level: "exploration",
    rule: "histories of 2-6 versions x fetch faults (missing file, wrong hash, invalid/expired/stale/premature manifest, bad or missing \
           CRL, unreachable module, faulty objects). After every run the store is read back with StoredPoint::load_quietly and \
           compared byte for byte with the model's stored version (manifest bytes, exactly the listed files), no stored point may \
           exist for a CA that never had a complete valid fetch, and an offline run (collector disabled) must serve exactly the \
           payload of the stored versions. distinct = (model decision with reason, stale policy) classes",
    assumptions: &["as C03"],
    shards: |_| 16,
    watchdog: |t| Duration::from_secs(t.pick(600, 3600)),
    budget: |t| Duration::from_secs(t.pick(40, 300)),
    run: |c, r| run_hist(c, r, "C04", Emphasis::Mixed),
    crash_is_violation: false,
    finish: None,
};

pub const C05: Check = Check {
    id: "C05",
    level: "exploration",
    rule: "histories where consecutive validly signed versions have manifest number / thisUpdate increasing, equal number with later \
           time, later number with equal time, decreasing (replays of older numbers and times), and jumps; in a third of the histories a short-lived version is stored, the virtual clock moves past its nextUpdate and an older, still current manifest is replayed. Oracle: the fetched \
           version replaces the stored one only if both number and thisUpdate are strictly greater; the stored manifest number and \
           thisUpdate read back after each run never decrease; payload follows the model. distinct = (decision with reason) classes",
    assumptions: &["the 'stored copy internally inconsistent' exception is not generated"],
    shards: |_| 16,
    watchdog: |t| Duration::from_secs(t.pick(600, 3600)),
    budget: |t| Duration::from_secs(t.pick(40, 300)),
    run: |c, r| run_hist(c, r, "C05", Emphasis::Ordering),
    crash_is_violation: false,
    finish: None,
};
