//! C20: route origin validation follows RFC 6811.

use std::net::{IpAddr, Ipv4Addr, Ipv6Addr};
use std::time::Duration;
use serde_json::{json, Value};
use routinator::payload::PayloadSnapshot;
use routinator::validity::{RequestList, RouteState, RouteValidity};
use rpki::resources::{Asn, MaxLenPrefix, Prefix};
use rpki::rtr::payload::RouteOrigin;
use crate::core::{Check, Ctx, Report, Rng};
use crate::pgen::{fmt_origin, info, ip_bits};

pub const C20: Check = Check {
    id: "C20",
    level: "exploration",
    rule: "VRP sets built around a random base prefix (covering, equal, more specific, sibling, other family; \
           max-length at len, route-len-1, route-len, route-len+1, family max; two or three origin ASes) and routes \
           that are truncations/extensions of the base prefix; evaluated through RouteValidity::new, the \
           validate command's plain and JSON request-file parsers + RequestList::validity + write_plain/write_json \
           (parsed back), and the HTTP validity endpoints (path, query, batch POST) of the real listener. Oracle: \
           independent bit-level RFC 6811 implementation on (family, 128-bit value, length). distinct = \
           (family, state, reason, lists-nonempty pattern, boundary class) combinations",
    assumptions: &["a covering VRP that is both too long and of another AS may be listed in either unmatched list"],
    shards: |_| 16,
    watchdog: |t| Duration::from_secs(t.pick(300, 3600)),
    budget: |t| Duration::from_secs(t.pick(30, 300)),
    run: run_c20,
    crash_is_violation: false,
    finish: None,
};

#[derive(Clone, Copy, Debug, PartialEq, Eq, PartialOrd, Ord)]
pub struct RawVrp { pub v4: bool, pub bits: u128, pub len: u8, pub max: u8, pub asn: u32 }

#[derive(Clone, Copy, Debug)]
pub struct RawRoute { pub v4: bool, pub bits: u128, pub len: u8, pub asn: u32 }

fn mask(len: u8) -> u128 { if len == 0 { 0 } else { u128::MAX << (128 - len as u32) } }

pub fn prefix_of(v4: bool, bits: u128, len: u8) -> Prefix {
    let bits = bits & mask(len);
    if v4 { Prefix::new_v4(Ipv4Addr::from((bits >> 96) as u32), len).unwrap() }
    else { Prefix::new_v6(Ipv6Addr::from(bits), len).unwrap() }
}

impl RawVrp {
    pub fn origin(&self) -> RouteOrigin {
        let p = prefix_of(self.v4, self.bits, self.len);
        // a max length equal to the prefix length is written as "absent" for about half of the VRPs (ROA entries and
        // SLURM assertions without maxLength); which half is a fixed function of the VRP so that equal VRPs stay equal
        let absent = self.max == self.len && (self.bits.count_ones() + self.asn + self.len as u32) % 2 == 0;
        RouteOrigin::new(MaxLenPrefix::new(p, if absent { None } else { Some(self.max) }).unwrap(), Asn::from_u32(self.asn))
    }
    pub fn from_origin(o: &RouteOrigin) -> Self {
        let (v4, bits) = ip_bits(o.prefix.addr());
        RawVrp { v4, bits, len: o.prefix.prefix_len(), max: o.prefix.resolved_max_len(), asn: o.asn.into_u32() }
    }
}

/// Independent RFC 6811 oracle.
pub struct Expect { pub state: &'static str, pub matching: Vec<RawVrp>, pub covering_nonmatching: Vec<RawVrp> }

pub fn oracle(vrps: &[RawVrp], r: &RawRoute) -> Expect {
    let mut matching = Vec::new();
    let mut other = Vec::new();
    for v in vrps {
        let covers = v.v4 == r.v4 && v.len <= r.len && (v.bits & mask(v.len)) == (r.bits & mask(v.len));
        if !covers { continue }
        if v.asn == r.asn && r.len <= v.max { matching.push(*v) } else { other.push(*v) }
    }
    let state = if !matching.is_empty() { "valid" } else if !other.is_empty() { "invalid" } else { "not-found" };
    matching.sort(); other.sort();
    Expect { state, matching, covering_nonmatching: other }
}

pub fn gen_case(rng: &mut Rng) -> (Vec<RawVrp>, Vec<RawRoute>) {
    let v4 = rng.bool();
    let maxlen: u8 = if v4 { 32 } else { 128 };
    let raw = ((rng.u64() as u128) << 64) | rng.u64() as u128;
    let bits = if v4 { raw & mask(32) } else { raw };
    let base_len = match rng.usize(6) { 0 => 0, 1 => maxlen, 2 => maxlen - 1, 3 => 1, _ => rng.range(2, maxlen as i64 - 2) as u8 };
    let asns = [64500u32, 64501, 0];
    let mut vrps = Vec::new();
    let nv = rng.usize(7);
    for _ in 0..nv {
        let kind = rng.usize(8);
        let (vv4, vbits, vlen) = match kind {
            0 | 1 => (v4, bits, rng.range(0, base_len as i64) as u8),                 // covering
            2 => (v4, bits, base_len),                                                   // equal
            3 => (v4, bits, rng.range(base_len as i64, maxlen as i64) as u8),           // more specific
            4 => { // sibling: flip a bit inside the prefix
                let l = rng.range(1, base_len.max(1) as i64) as u8;
                (v4, bits ^ (1u128 << (128 - l as u32)), rng.range(l as i64, base_len.max(l) as i64) as u8)
            }
            5 => { // other family with "same" leading bits
                let ov4 = !v4; let om = if ov4 { 32 } else { 128 };
                (ov4, if ov4 { bits & mask(32) } else { bits }, base_len.min(om))
            }
            6 => (v4, 0, 0),                                                             // the /0
            _ => (v4, bits, rng.range(0, maxlen as i64) as u8),
        };
        let fmax: u8 = if vv4 { 32 } else { 128 };
        let vlen = vlen.min(fmax);
        let max = match rng.usize(6) {
            0 => vlen,
            1 => base_len.max(vlen).min(fmax),
            2 => base_len.saturating_sub(1).max(vlen).min(fmax),
            3 => (base_len.saturating_add(1)).max(vlen).min(fmax),
            4 => fmax,
            _ => rng.range(vlen as i64, fmax as i64) as u8,
        };
        vrps.push(RawVrp { v4: vv4, bits: vbits & mask(vlen), len: vlen, max, asn: *rng.pick(&asns) });
    }
    vrps.sort(); vrps.dedup();
    let mut routes = Vec::new();
    for _ in 0..6 {
        let rlen = match rng.usize(5) { 0 => base_len, 1 => base_len.saturating_sub(1), 2 => (base_len + 1).min(maxlen), 3 => maxlen, _ => rng.range(0, maxlen as i64) as u8 };
        let rbits = if rng.chance(1, 6) { bits ^ (1u128 << (128 - rng.range(1, maxlen as i64) as u32)) } else { bits };
        routes.push(RawRoute { v4, bits: rbits & mask(rlen), len: rlen, asn: *rng.pick(&[64500u32, 64501, 0, 64999]) });
    }
    // one route of the other family
    let ov4 = !v4;
    let ol = base_len.min(if ov4 { 32 } else { 128 });
    routes.push(RawRoute { v4: ov4, bits: (if ov4 { bits & mask(32) } else { bits }) & mask(ol), len: ol, asn: 64500 });
    (vrps, routes)
}

pub fn snapshot_of(vrps: &[RawVrp]) -> PayloadSnapshot {
    PayloadSnapshot::new(vrps.iter().map(|v| (v.origin(), info())), std::iter::empty(), std::iter::empty(), None)
}

fn state_str(s: RouteState) -> &'static str {
    match s { RouteState::Valid => "valid", RouteState::Invalid => "invalid", RouteState::NotFound => "not-found" }
}

/// Judges lists + state + reason against the oracle; returns class string.
pub fn judge_lists(
    what: &str, vrps: &[RawVrp], r: &RawRoute, state: &str, reason: Option<&str>,
    matched: &[RawVrp], bad_asn: &[RawVrp], bad_len: &[RawVrp], rep: &mut Report,
) -> String {
    let exp = oracle(vrps, r);
    let replay = json!({"via": what, "vrps": vrps.iter().map(|v| fmt_origin(&v.origin())).collect::<Vec<_>>(),
        "route": format!("{} AS{}", prefix_of(r.v4, r.bits, r.len), r.asn)});
    if state != exp.state {
        rep.violation(format!("C20/state/{}-instead-of-{}", state, exp.state),
            format!("{what}: state {state}, RFC 6811 oracle says {}", exp.state), replay.clone());
    }
    let mut m = matched.to_vec(); m.sort();
    if m != exp.matching {
        rep.violation("C20/matched-list", format!("{what}: matched list {:?} != matching VRPs {:?}", m, exp.matching), replay.clone());
    }
    for v in bad_asn {
        if v.asn == r.asn { rep.violation("C20/unmatched-as-same-as", format!("{what}: unmatched_as lists a VRP of the route's AS: {:?}", v), replay.clone()); }
    }
    for v in bad_len {
        if r.len <= v.max { rep.violation("C20/unmatched-length-not-too-long", format!("{what}: unmatched_length lists a VRP that is long enough: {:?}", v), replay.clone()); }
    }
    let mut u: Vec<RawVrp> = bad_asn.iter().chain(bad_len.iter()).cloned().collect();
    u.sort();
    let dup = u.windows(2).any(|w| w[0] == w[1]);
    if dup || u != exp.covering_nonmatching {
        rep.violation("C20/unmatched-partition", format!(
            "{what}: unmatched lists {:?} are not a partition of the covering non-matching VRPs {:?}", u, exp.covering_nonmatching), replay.clone());
    }
    let want_reason = if !matched.is_empty() { None } else if !bad_asn.is_empty() { Some("as") } else if !bad_len.is_empty() { Some("length") } else { None };
    if reason != want_reason {
        rep.violation("C20/reason", format!("{what}: reason {:?}, lists imply {:?}", reason, want_reason), replay);
    }
    let boundary = if exp.matching.iter().chain(exp.covering_nonmatching.iter()).any(|v| v.max == r.len) { "at" }
        else if exp.covering_nonmatching.iter().any(|v| v.max + 1 == r.len) { "above" } else { "-" };
    format!("{}|{}|{}|m{}a{}l{}|{}", if r.v4 { "v4" } else { "v6" }, exp.state, reason.unwrap_or("-"),
        (!matched.is_empty()) as u8, (!bad_asn.is_empty()) as u8, (!bad_len.is_empty()) as u8, boundary)
}

fn raw_list(items: &[(RouteOrigin, &routinator::payload::PayloadInfo)]) -> Vec<RawVrp> {
    items.iter().map(|x| RawVrp::from_origin(&x.0)).collect()
}

/// Parses the "validity" JSON object written by routinator back into lists.
pub fn parse_validity_json(v: &Value) -> Option<(String, Option<String>, Vec<RawVrp>, Vec<RawVrp>, Vec<RawVrp>, String, String)> {
    let route = v.get("route")?;
    let asn = route.get("origin_asn")?.as_str()?.to_string();
    let prefix = route.get("prefix")?.as_str()?.to_string();
    let val = v.get("validity")?;
    let state = val.get("state")?.as_str()?.to_string();
    let reason = val.get("reason").and_then(|r| r.as_str()).map(|s| s.to_string());
    let vrps = val.get("VRPs")?;
    let list = |k: &str| -> Option<Vec<RawVrp>> {
        let mut out = Vec::new();
        for it in vrps.get(k)?.as_array()? {
            let asn: u32 = it.get("asn")?.as_str()?.trim_start_matches("AS").parse().ok()?;
            let p: Prefix = it.get("prefix")?.as_str()?.parse().ok()?;
            let max: u8 = it.get("max_length")?.as_str()?.parse().ok()?;
            let (v4, bits) = ip_bits(p.addr());
            out.push(RawVrp { v4, bits, len: p.len(), max, asn });
        }
        Some(out)
    };
    Some((state, reason, list("matched")?, list("unmatched_as")?, list("unmatched_length")?, asn, prefix))
}

fn http_leg(ctx: &mut Ctx, rep: &mut Report) {
    use crate::srv::{http_get, http_request, TestServer};
    let hooks = crate::hooks::Hooks::install();
    hooks.set_record(false);
    let mut rng = ctx.rng("c20-http");
    let mut srv = match TestServer::start(&ctx.scratch, |_| {}) {
        Ok(s) => s, Err(e) => { rep.inconclusive(format!("http leg: {e}")); return }
    };
    let n = ctx.tier.pick(12usize, 300);
    for _ in 0..n {
        if !ctx.time_left() { break }
        let (vrps, routes) = gen_case(&mut rng);
        let mut model = crate::pgen::Model::default();
        for v in &vrps { model.origins.insert(v.origin()); }
        if srv.install(&hooks, &model).is_err() { rep.inconclusive("http leg: update failed"); return }
        let mut batch = Vec::new();
        for r in &routes {
            let p = prefix_of(r.v4, r.bits, r.len);
            batch.push(json!({"prefix": p.to_string(), "asn": format!("AS{}", r.asn)}));
            let t1 = format!("/api/v1/validity/AS{}/{}", r.asn, p);
            let t2 = format!("/validity?asn=AS{}&prefix={}", r.asn, p.to_string().replace(':', "%3A").replace('/', "%2F"));
            for (via, target) in [("GET /api/v1/validity", t1), ("GET /validity?", t2)] {
                rep.eval();
                match http_get(srv.http_addr, &target) {
                    Ok(resp) if resp.status == 200 => {
                        match serde_json::from_slice::<Value>(&resp.body).ok().and_then(|v| v.get("validated_route").cloned()).and_then(|v| parse_validity_json(&v)) {
                            Some((state, reason, m, a, l, _, _)) => {
                                let c = judge_lists(via, &vrps, r, &state, reason.as_deref(), &m, &a, &l, rep);
                                rep.class(format!("http|{c}"));
                            }
                            None => rep.violation("C20/json-unparsable", format!("{via}: body does not parse"), json!({"target": target, "body": resp.text()})),
                        }
                    }
                    Ok(resp) => rep.violation("C20/http-status", format!("{via}: status {} for {target}", resp.status), json!({"target": target})),
                    Err(e) => rep.inconclusive(format!("http leg: {e}")),
                }
            }
        }
        let body = json!({"routes": batch}).to_string();
        match http_request(srv.http_addr, "POST", "/validity", &[("Content-Type", "application/json".into())], Some(body.as_bytes()), Duration::from_secs(20)) {
            Ok(resp) if resp.status == 200 => {
                let parsed: Option<Value> = serde_json::from_slice(&resp.body).ok();
                match parsed.as_ref().and_then(|v| v.get("validated_routes")).and_then(|v| v.as_array()) {
                    Some(arr) if arr.len() == routes.len() => {
                        for (idx, r) in routes.iter().enumerate() {
                            rep.eval();
                            match parse_validity_json(&arr[idx]) {
                                Some((state, reason, m, a, l, _, _)) => { judge_lists("POST /validity", &vrps, r, &state, reason.as_deref(), &m, &a, &l, rep); }
                                None => rep.violation("C20/json-unparsable", "POST /validity: entry does not parse", json!({"body": resp.text()})),
                            }
                        }
                        rep.count("http_batch_posts", 1);
                    }
                    _ => rep.violation("C20/batch-json-shape", "POST /validity: wrong shape", json!({"body": resp.text(), "request": body})),
                }
            }
            Ok(resp) => rep.violation("C20/http-status", format!("POST /validity: status {}", resp.status), json!({"request": body})),
            Err(e) => rep.inconclusive(format!("http leg: {e}")),
        }
    }
    crate::hooks::Hooks::uninstall();
}

fn run_c20(ctx: &mut Ctx, rep: &mut Report) {
    if ctx.shard % 4 == 0 && !cfg!(miri) { http_leg(ctx, rep); }   // sockets are FFI: not under Miri
    let mut rng = ctx.rng("c20");
    let cases = ctx.tier.pick(6_000u64, 200_000);
    for i in 0..cases {
        if (i % 64 == 0 || cfg!(miri)) && !ctx.time_left() { rep.note("time budget reached"); break }
        let (vrps, routes) = gen_case(&mut rng);
        let snap = snapshot_of(&vrps);
        // (a) library
        for r in &routes {
            rep.eval();
            let p = prefix_of(r.v4, r.bits, r.len);
            let rv = RouteValidity::new(p, Asn::from_u32(r.asn), &snap);
            let class = judge_lists("RouteValidity::new", &vrps, r, state_str(rv.state()), rv.reason(),
                &raw_list(rv.matched()), &raw_list(rv.bad_asn()), &raw_list(rv.bad_len()), rep);
            rep.class(class);
            // single-route JSON document
            let doc = rv.clone().into_json(&snap);
            match serde_json::from_slice::<Value>(&doc).ok().and_then(|v| v.get("validated_route").cloned()).and_then(|v| parse_validity_json(&v)) {
                Some((state, reason, m, a, l, _, _)) => {
                    judge_lists("into_json", &vrps, r, &state, reason.as_deref(), &m, &a, &l, rep);
                }
                None => rep.violation("C20/json-unparsable", "validity JSON document does not parse", json!({"doc": String::from_utf8_lossy(&doc)})),
            }
        }
        // (b) request files (plain and JSON) + batch writers
        if i % 4 == 0 {
            let mut plain = String::new();
            let mut jreq = Vec::new();
            for r in &routes {
                let p = prefix_of(r.v4, r.bits, r.len);
                plain.push_str(&format!("{} => AS{} # c\n", p, r.asn));
                jreq.push(json!({"prefix": p.to_string(), "asn": format!("AS{}", r.asn)}));
            }
            let via_plain = RequestList::from_plain_reader(std::io::Cursor::new(plain.clone()));
            let jtext = json!({"routes": jreq}).to_string();
            let via_json = RequestList::from_json_reader(&mut jtext.as_bytes());
            for (name, list) in [("plain-request-file", via_plain.ok()), ("json-request-file", via_json.ok())] {
                let Some(list) = list else {
                    rep.violation("C20/request-file-rejected", format!("{name} parser rejected a well-formed request file"), json!({"plain": plain, "json": jtext}));
                    continue
                };
                let res = list.validity(&snap);
                let states: Vec<&str> = res.iter_state().map(|x| state_str(x.2)).collect();
                let mut out = Vec::new();
                res.write_json(&mut out).unwrap();
                let parsed: Option<Value> = serde_json::from_slice(&out).ok();
                let arr = parsed.as_ref().and_then(|v| v.get("validated_routes")).and_then(|v| v.as_array());
                let mut pl = Vec::new();
                res.write_plain(&mut pl).unwrap();
                let pl = String::from_utf8_lossy(&pl).into_owned();
                let pl_lines: Vec<&str> = pl.lines().collect();
                match arr {
                    Some(arr) if arr.len() == routes.len() && states.len() == routes.len() && pl_lines.len() == routes.len() => {
                        for (idx, r) in routes.iter().enumerate() {
                            rep.eval();
                            let exp = oracle(&vrps, r);
                            if states[idx] != exp.state {
                                rep.violation(format!("C20/state/{}-instead-of-{}", states[idx], exp.state), format!("{name}: iter_state says {}, oracle {}", states[idx], exp.state), json!({"plain": plain}));
                            }
                            if !pl_lines[idx].ends_with(&format!(": {}", exp.state)) {
                                rep.violation("C20/plain-output", format!("{name}: plain line '{}' does not report {}", pl_lines[idx], exp.state), json!({"plain": plain}));
                            }
                            if let Some((state, reason, m, a, l, _, _)) = parse_validity_json(&arr[idx]) {
                                judge_lists(name, &vrps, r, &state, reason.as_deref(), &m, &a, &l, rep);
                            } else {
                                rep.violation("C20/json-unparsable", format!("{name}: batch JSON entry unparsable"), json!({"doc": String::from_utf8_lossy(&out)}));
                            }
                        }
                    }
                    _ => rep.violation("C20/batch-json-shape", format!("{name}: batch output has wrong shape"), json!({"doc": String::from_utf8_lossy(&out), "plain": pl})),
                }
            }
        }
        if rep.samples.len() < 3 && !vrps.is_empty() {
            rep.sample(json!({"vrps": vrps.iter().map(|v| fmt_origin(&v.origin())).collect::<Vec<_>>(),
                "routes": routes.iter().map(|r| format!("{} AS{}", prefix_of(r.v4, r.bits, r.len), r.asn)).collect::<Vec<_>>()}));
        }
    }
    let _ = IpAddr::V4(Ipv4Addr::UNSPECIFIED);
}
