//! World-based validation properties: C01 (only validated payload), C02
//! (valid payload never dropped) and relatives, judged against the
//! independent oracle.

use std::time::Duration;
use serde_json::json;
use routinator::slurm::LocalExceptions;
use crate::core::{Check, Ctx, Report, Rng};
use crate::world::build::Builder;
use crate::world::oracle::{compare, expect_fresh, item_ca, observe, Filter, Policy};
use crate::world::run::{run_engine, Env};
use crate::world::spec::{generate, Fault, GenParams, World};

fn now_ts() -> i64 { chrono::Utc::now().timestamp() }

pub fn gen_policy(rng: &mut Rng) -> Policy {
    let f = |r: &mut Rng| *r.pick(&[Filter::Reject, Filter::Warn, Filter::Accept]);
    Policy {
        stale: f(rng), unsafe_vrps: Filter::Accept,
        enable_bgpsec: rng.chance(3, 4), enable_aspa: rng.chance(3, 4),
        // prefix-length limits now and then (they apply to the prefix length, not to the max length)
        limit_v4: if rng.chance(1, 4) { Some(*rng.pick(&[16u8, 20, 24])) } else { None },
        limit_v6: if rng.chance(1, 4) { Some(*rng.pick(&[48u8, 49, 50])) } else { None },
        max_ca_depth: 32,
    }
}

fn fault_class(w: &World) -> String {
    let mut of: Vec<String> = w.cas.iter().flat_map(|c| c.objects.iter().filter_map(|o| o.fault.map(|f| format!("{:?}", f)))).collect();
    of.sort(); of.dedup();
    let mut pf: Vec<String> = w.cas.iter().flat_map(|c| c.point_faults.iter().map(|f| format!("{:?}", f))).collect();
    pf.sort(); pf.dedup();
    format!("obj[{}]|point[{}]", of.join(","), pf.join(","))
}

pub struct WorldRun {
    pub surplus: Vec<String>,
    pub missing: Vec<String>,
    pub failed: bool,
}

pub fn ec_hex(b: &Builder) -> Vec<String> {
    b.signer.ec_pubs.iter().map(|k| crate::pgen::hex(&k.to_info_bytes())).collect()
}

/// Generates, serves, validates and compares one world on a fresh cache.
pub fn one_world(env_dir: &std::path::Path, b: &mut Builder, w: &World, pol: &Policy, threads: usize) -> WorldRun {
    let mut env = Env::new(env_dir);
    pol.apply(&mut env.config);
    env.config.validation_threads = threads;
    let p = b.publish(w);
    env.serve(&p);
    let out = run_engine(&env.config, true, &LocalExceptions::empty());
    let Some(snap) = out.snapshot else { return WorldRun { surplus: vec![], missing: vec![], failed: true } };
    let e = expect_fresh(w, w.now, pol);
    let o = observe(&snap);
    let (surplus, missing) = compare(&e, &o, &ec_hex(b));
    WorldRun { surplus, missing, failed: false }
}

fn run_c01_c02(ctx: &mut Ctx, rep: &mut Report, judge_surplus: bool) {
    // A quarter of the shards run multi-run histories on one cache (fetch faults and incomplete
    // updates against a stored version) judged by the history model.
    if ctx.shard % 4 == 3 {
        super::hist::run_hist(ctx, rep, if judge_surplus { "C01" } else { "C02" }, super::hist::Emphasis::Mixed);
        return
    }
    let mut rng = ctx.rng("worlds");
    let mut b = match Builder::new() { Ok(b) => b, Err(e) => { rep.inconclusive(format!("key pool: {e}")); return } };
    let n = ctx.tier.pick(40u64, 800);
    for i in 0..n {
        if !ctx.time_left() { rep.note("time budget reached"); break }
        let params = GenParams {
            tals: 1 + rng.usize(3), max_cas: 2 + rng.usize(10), max_depth: 1 + rng.usize(4), max_objects: 1 + rng.usize(8),
            repos: 1 + rng.usize(3), obj_faults: if i % 5 == 0 { 0 } else { rng.usize(5) }, point_faults: if i % 3 == 0 { rng.usize(3) } else { 0 },
            overlaps: false, rrdp: false,
        };
        let w = generate(&mut rng, now_ts(), &params);
        let pol = gen_policy(&mut rng);
        let threads = 1 + rng.usize(4);
        ctx.begin_case(&json!({"world": i}));
        let t0 = std::time::Instant::now();
        let r = one_world(&ctx.scratch.join("env"), &mut b, &w, &pol, threads);
        rep.eval();
        if t0.elapsed() > Duration::from_secs(10) { rep.inconclusive("run took longer than the 10 s time margin; not judged"); continue }
        if r.failed { rep.inconclusive("validation run failed"); continue }
        let replay = json!({"world": w, "policy": format!("{:?}", pol), "threads": threads});
        let any_obj_fault = w.cas.iter().any(|c| c.objects.iter().any(|o| o.fault.is_some()));
        let any_point_fault = w.cas.iter().any(|c| !c.point_faults.is_empty());
        if judge_surplus {
            for s in &r.surplus {
                // Attribute: which faults are present at the CA this item belongs to?
                let ca = item_ca(s);
                let faults: Vec<String> = ca.map(|c| w.cas.get(c).map(|c| {
                    let mut f: Vec<String> = c.objects.iter().filter_map(|o| o.fault.map(|f| format!("{:?}", f))).collect();
                    f.extend(c.point_faults.iter().map(|f| format!("{:?}", f)));
                    f.sort(); f.dedup(); f
                }).unwrap_or_default()).unwrap_or_default();
                rep.violation(format!("C01/unvalidated-payload-served/{}", faults.join("+")),
                    format!("served item {s} is not carried by any valid object of the world (faults at its CA: {:?})", faults), replay.clone());
            }
            if any_obj_fault || any_point_fault { rep.class(format!("{}|stale{:?}|bgpsec{}|aspa{}", fault_class(&w), pol.stale, pol.enable_bgpsec as u8, pol.enable_aspa as u8)); }
        }
        else {
            for m in &r.missing {
                let ca = item_ca(m);
                let faults: Vec<String> = ca.map(|c| w.cas.get(c).map(|c| {
                    let mut f: Vec<String> = c.objects.iter().filter_map(|o| o.fault.map(|f| format!("{:?}", f))).collect();
                    f.extend(c.point_faults.iter().map(|f| format!("{:?}", f)));
                    f.sort(); f.dedup(); f
                }).unwrap_or_default()).unwrap_or_default();
                rep.violation(format!("C02/valid-payload-dropped/{}", faults.join("+")),
                    format!("expected item {m} is missing from the served data (faults at its CA: {:?})", faults), replay.clone());
            }
            // non-trivial: a faulty object with at least one valid sibling
            let sibling = w.cas.iter().any(|c| c.objects.iter().any(|o| o.fault.is_some() && o.fault != Some(Fault::Unlisted)) && c.objects.iter().any(|o| o.fault.is_none()));
            if sibling || any_point_fault { rep.class(format!("{}|stale{:?}", fault_class(&w), pol.stale)); }
        }
        rep.count("objects_built", b.built); b.built = 0;
        if rep.samples.len() < 2 && (any_obj_fault || any_point_fault) {
            rep.sample(json!({"tals": w.tals.len(), "cas": w.cas.len(), "objects": w.cas.iter().map(|c| c.objects.len()).sum::<usize>(), "faults": fault_class(&w), "policy": format!("{:?}", pol)}));
        }
    }
}

pub const C01: Check = Check {
    id: "C01",
    level: "exploration",
    rule: "generated RPKI worlds (1-3 TALs, up to 12 CAs, depth <= 4, ROAs/ASPAs/router certs/GBRs/unknown files, several rsync \
           repositories) with 0-4 object faults (bad signature, foreign key, resource overclaim, revoked, expired, not yet valid, \
           wrong CRL DP, undecodable, unlisted) and 0-2 publication point faults (missing/hash-mismatching listed file, manifest \
           bad signature/foreign key/EE revoked/premature/stale/EE expired/garbage/absent, CRL missing/unlisted/wrong hash/bad \
           signature/stale/garbage), random stale policy, bgpsec/aspa switches and 1-4 validation threads, are signed with the \
           committed key pool, served through the fake rsync and validated by the real engine on a fresh cache. Oracle (from the \
           generator's model only): served \\ expected = {}. distinct = (fault-kind set, policy) classes with at least one fault",
    assumptions: &["crypto primitives of rpki/ring are trusted; faults outside the taxonomy are not generated",
                   "every generated instant is at least 30 minutes away from the run's clock; runs longer than 10 s are not judged"],
    shards: |_| 16,
    watchdog: |t| Duration::from_secs(t.pick(600, 3600)),
    budget: |t| Duration::from_secs(t.pick(40, 300)),
    run: |c, r| run_c01_c02(c, r, true),
    crash_is_violation: false,
    finish: None,
};

pub const C02: Check = Check {
    id: "C02",
    level: "exploration",
    rule: "same executions as C01 with the opposite inclusion: expected \\ served = {} where expected applies only the documented \
           filters; a missing item is reported with the faults present at its CA (a per-object fault must not remove valid \
           siblings; a point-level fault removes exactly that point and its subtree). distinct = fault classes in which a faulty \
           object had at least one valid sibling or a point fault was present",
    assumptions: &["as C01"],
    shards: |_| 16,
    watchdog: |t| Duration::from_secs(t.pick(600, 3600)),
    budget: |t| Duration::from_secs(t.pick(40, 300)),
    run: |c, r| run_c01_c02(c, r, false),
    crash_is_violation: false,
    finish: None,
};
