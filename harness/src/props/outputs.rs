//! C21 (output formats list exactly the selected payload, well-formed) and
//! C22 (status and metrics documents are always well-formed), end to end
//! through the real engine, server step and HTTP listener.

use std::collections::{BTreeMap, BTreeSet};
use std::str::FromStr;
use std::sync::Arc;
use std::time::Duration;
use serde_json::{json, Value};
use routinator::output::{Output, OutputFormat};
use crate::core::{Check, Ctx, Report, Rng};
use crate::hooks::Hooks;
use crate::srv::{http_get, TestServer};
use crate::world::build::Builder;
use crate::world::oracle::*;
use crate::world::run::Env;
use crate::world::spec::*;

const HOSTILE: &[&str] = &[
    "plain", "with \"quotes\"", "back\\slash", "tab\there", "bell\x07", "nl-in-label\nsecond line", "comma,semi;colon:", "ünïcödé ☃",
    "{\"json\": [1,2]}", "trailing\\", "\\\"", "a b  c", "'single'", "<xml>&amp;", "ta\rcr", "\x1b[31mred", "nul-free\x01\x02",
];

fn hostile(rng: &mut Rng) -> String { HOSTILE[rng.usize(HOSTILE.len())].to_string() }

struct Setup { srv: TestServer, world: World, expected: Observed, tal_names: Vec<String> }

fn setup(ctx: &Ctx, rng: &mut Rng, b: &mut Builder, hooks: &Hooks) -> Result<Setup, String> {
    let params = GenParams { tals: 1 + rng.usize(2), max_cas: 2 + rng.usize(4), max_depth: 2, max_objects: 3 + rng.usize(5), repos: 2, ..GenParams::default() };
    let mut w = generate(rng, chrono::Utc::now().timestamp(), &params);
    // TAL names: file names may hold anything but '/' and NUL; labels (config) anything.
    let mut labels = std::collections::HashMap::new();
    let mut tal_names = Vec::new();
    for t in 0..w.tals.len() {
        let fname = format!("t{t}-{}", hostile(rng).replace('/', "_").replace('\n', " "));
        w.tals[t].name = fname.clone();
        if rng.bool() { let l = format!("label{t}-{}", hostile(rng)); labels.insert(format!("{fname}.tal"), l.clone()); tal_names.push(l); } else { tal_names.push(fname); }
    }
    let mut env = Env::new(&ctx.scratch.join("env"));
    env.config.tal_labels = labels;
    env.config.log_repository_issues = false;
    env.config.refresh = Duration::from_secs(600);
    // hostile log lines from the "remote" side
    let mut stderr = String::new();
    for _ in 0..1 + rng.usize(3) { stderr.push_str(&format!("rsync: {}\n", hostile(rng).replace('\n', "\\n"))); }
    stderr.push_str("rsync: raw \"quote\" \\ backslash \t tab \x0b vt \x7f del\n");
    std::fs::write(env.ctrl.join("stderr"), stderr).map_err(|e| e.to_string())?;
    // one failing module so that error texts are logged too
    let p = b.publish(&w);
    env.serve(&p);
    // Local exceptions in half of the set-ups: an assertion that is listed in two files (two exception sources for one
    // item), one listed twice in one file, and one that repeats a VRP the repositories publish (published + exception).
    let e = expect_fresh(&w, w.now, &Policy::default());
    let mut asserted: BTreeSet<Vrp> = BTreeSet::new();
    if rng.bool() {
        let mut a: Vec<Vrp> = vec![(true, (198u128 << 120) | (51u128 << 112) | (100u128 << 104), 24, 24, 64999), (false, 0x2001_0db8_ffffu128 << 80, 48, 56, 64998)];
        if let Some(v) = e.vrps.iter().next() { a.push(*v); }
        let mut entry = |v: &Vrp| format!("{{\"asn\": {}, \"prefix\": \"{}/{}\", \"maxPrefixLength\": {}, \"comment\": \"c {}\"}}", v.4,
            if v.0 { std::net::Ipv4Addr::from((v.1 >> 96) as u32).to_string() } else { std::net::Ipv6Addr::from(v.1).to_string() }, v.2, v.3, hostile(rng).replace('\\', "/").replace('"', "'").chars().filter(|c| !c.is_control()).collect::<String>());
        let file = |items: Vec<String>| format!("{{\"slurmVersion\": 1, \"validationOutputFilters\": {{\"prefixFilters\": [], \"bgpsecFilters\": []}}, \"locallyAddedAssertions\": {{\"prefixAssertions\": [{}], \"bgpsecAssertions\": []}}}}", items.join(", "));
        let f1 = env.dir.join("exceptions1.json"); let f2 = env.dir.join("exceptions2.json");
        let all: Vec<String> = a.iter().map(|v| entry(v)).collect();
        std::fs::write(&f1, file(vec![all[0].clone(), all[0].clone(), all[1].clone()].into_iter().chain(all.get(2).cloned()).collect())).map_err(|e| e.to_string())?;
        std::fs::write(&f2, file(vec![all[0].clone(), all[1].clone()])).map_err(|e| e.to_string())?;
        env.config.exceptions = vec![f1, f2];
        asserted.extend(a.iter().cloned());
    }
    let mut srv = TestServer::start_with_config(env.config.clone(), true)?;
    if !env.config.exceptions.is_empty() {
        srv.exceptions = routinator::slurm::LocalExceptions::load(&env.config, true).map_err(|_| "exceptions files not accepted".to_string())?;
    }
    srv.process_once(false).map_err(|_| "validation run failed".to_string())?;
    let _ = hooks;
    let snap = srv.history.read().current().ok_or("no snapshot")?;
    let expected = observe(&snap);
    // self-check against the oracle so that the data set is what the world says (plus the assertions)
    let mut e = e;
    e.vrps.extend(asserted.iter().cloned());
    let (su, mi) = compare(&e, &expected, &super::worlds::ec_hex(b));
    if !su.is_empty() || !mi.is_empty() { return Err(format!("data set differs from the world oracle: {:?} {:?}", su.first(), mi.first())) }
    Ok(Setup { srv, world: w, expected, tal_names })
}

//------------ C22 -----------------------------------------------------------

pub const C22: Check = Check {
    id: "C22",
    level: "exploration",
    rule: "end to end: generated worlds whose TAL file names and configured TAL labels contain quotes, backslashes, control \
           characters, newlines and non-ASCII text are validated by the real engine while the fake rsync prints hostile stderr \
           lines (which become log-book messages); the data set is installed by the real server step and GET /api/v1/status and \
           GET /metrics are fetched from the real listener. Oracle: the status document parses as a single JSON document \
           (serde_json) and carries every TAL name verbatim after decoding; the metrics document parses with a strict Prometheus \
           text-format parser (label values may only use the escapes \\\\, \\\", \\n and must not contain a raw line feed or an unescaped quote) and carries every TAL name as a label value after unescaping. distinct = hostile string \
           classes present x document",
    assumptions: &["rsync stderr is line based, so remote text cannot contain a raw newline within one message"],
    shards: |_| 8,
    watchdog: |t| Duration::from_secs(t.pick(600, 3600)),
    budget: |t| Duration::from_secs(t.pick(40, 300)),
    run: run_c22,
    crash_is_violation: false,
    finish: None,
};

/// Strict parser for the Prometheus text exposition format. Returns the
/// samples as (name, labels, value).
pub fn parse_prometheus(text: &str) -> Result<Vec<(String, BTreeMap<String, String>, String)>, String> {
    let mut out = Vec::new();
    for (no, line) in text.split('\n').enumerate() {
        let err = |m: &str| format!("line {}: {m}: {:?}", no + 1, line.chars().take(160).collect::<String>());
        if line.is_empty() { continue }
        if let Some(rest) = line.strip_prefix('#') {
            let rest = rest.trim_start();
            if rest.starts_with("HELP ") || rest.starts_with("TYPE ") {
                let mut it = rest.splitn(3, ' ');
                it.next();
                let name = it.next().ok_or_else(|| err("missing metric name"))?;
                if !valid_name(name) { return Err(err("invalid metric name in comment")) }
                if rest.starts_with("TYPE ") {
                    let t = it.next().unwrap_or("");
                    if !["counter", "gauge", "histogram", "summary", "untyped"].contains(&t.trim()) { return Err(err("invalid metric type")) }
                }
            }
            continue
        }
        let b = line.as_bytes();
        let mut i = 0;
        while i < b.len() && (b[i].is_ascii_alphanumeric() || b[i] == b'_' || b[i] == b':') { i += 1 }
        let name = &line[..i];
        if !valid_name(name) { return Err(err("invalid metric name")) }
        let mut labels = BTreeMap::new();
        if i < b.len() && b[i] == b'{' {
            i += 1;
            loop {
                while i < b.len() && (b[i] == b' ' || b[i] == b'\t') { i += 1 }
                if i < b.len() && b[i] == b'}' { i += 1; break }
                let s = i;
                while i < b.len() && (b[i].is_ascii_alphanumeric() || b[i] == b'_') { i += 1 }
                let lname = &line[s..i];
                if lname.is_empty() || lname.as_bytes()[0].is_ascii_digit() { return Err(err("invalid label name")) }
                while i < b.len() && b[i] == b' ' { i += 1 }
                if i >= b.len() || b[i] != b'=' { return Err(err("expected '=' after label name")) }
                i += 1;
                while i < b.len() && b[i] == b' ' { i += 1 }
                if i >= b.len() || b[i] != b'"' { return Err(err("expected '\"' starting label value")) }
                i += 1;
                let mut val = String::new();
                loop {
                    if i >= b.len() { return Err(err("unterminated label value")) }
                    let c = line[i..].chars().next().unwrap();
                    if c == '"' { i += 1; break }
                    if c == '\\' {
                        let n = line[i + 1..].chars().next().ok_or_else(|| err("dangling backslash"))?;
                        match n { '\\' => val.push('\\'), '"' => val.push('"'), 'n' => val.push('\n'), _ => return Err(err("invalid escape in label value")) }
                        i += 1 + n.len_utf8();
                        continue
                    }
                    val.push(c);
                    i += c.len_utf8();
                }
                if labels.insert(lname.to_string(), val).is_some() { return Err(err("duplicate label name")) }
                while i < b.len() && b[i] == b' ' { i += 1 }
                if i < b.len() && b[i] == b',' { i += 1; continue }
                if i < b.len() && b[i] == b'}' { i += 1; break }
                return Err(err("expected ',' or '}' after label value"))
            }
        }
        let rest = line[i..].trim();
        let mut parts = rest.split_whitespace();
        let value = parts.next().ok_or_else(|| err("missing sample value"))?;
        if value.parse::<f64>().is_err() && !["NaN", "+Inf", "-Inf"].contains(&value) { return Err(err("sample value is not a number")) }
        if let Some(ts) = parts.next() { if ts.parse::<i64>().is_err() { return Err(err("timestamp is not an integer")) } }
        if parts.next().is_some() { return Err(err("trailing garbage after sample")) }
        out.push((name.to_string(), labels, value.to_string()));
    }
    Ok(out)
}

fn valid_name(n: &str) -> bool {
    !n.is_empty() && !n.as_bytes()[0].is_ascii_digit() && n.bytes().all(|c| c.is_ascii_alphanumeric() || c == b'_' || c == b':')
}

fn str_class(s: &str) -> String {
    let mut c = Vec::new();
    if s.contains('"') { c.push("quote") }
    if s.contains('\\') { c.push("backslash") }
    if s.contains('\n') { c.push("newline") }
    if s.chars().any(|ch| (ch as u32) < 0x20 && ch != '\n') { c.push("control") }
    if !s.is_ascii() { c.push("non-ascii") }
    if c.is_empty() { c.push("plain") }
    c.join("+")
}

fn collect_strings(v: &Value, out: &mut BTreeSet<String>) {
    match v {
        Value::String(s) => { out.insert(s.clone()); }
        Value::Array(a) => for x in a { collect_strings(x, out) },
        Value::Object(o) => for (k, x) in o { out.insert(k.clone()); collect_strings(x, out) },
        _ => {}
    }
}

fn run_c22(ctx: &mut Ctx, rep: &mut Report) {
    crate::caplog::install(log::LevelFilter::Info);
    let hooks = Hooks::install();
    hooks.set_record(false);
    let mut rng = ctx.rng("c22");
    let mut b = match Builder::new() { Ok(b) => b, Err(e) => { rep.inconclusive(e); return } };
    let n = ctx.tier.pick(10usize, 150);
    for i in 0..n {
        if !ctx.time_left() { rep.note("time budget reached"); break }
        ctx.begin_case(&json!({"case": i}));
        let s = match setup(ctx, &mut rng, &mut b, &hooks) { Ok(s) => s, Err(e) => { rep.inconclusive(format!("setup: {e}")); continue } };
        let replay = json!({"tal_names": s.tal_names, "seed": ctx.seed, "shard": ctx.shard, "case": i});
        // status
        rep.eval();
        match http_get(s.srv.http_addr, "/api/v1/status") {
            Ok(r) if r.status == 200 => {
                let mut de = serde_json::Deserializer::from_slice(&r.body);
                let parsed: Result<Value, _> = serde::Deserialize::deserialize(&mut de);
                match parsed.and_then(|v| de.end().map(|_| v)) {
                    Ok(v) => {
                        let mut strings = BTreeSet::new();
                        collect_strings(&v, &mut strings);
                        for t in &s.tal_names {
                            if !strings.contains(t) { rep.violation("C22/status-tal-name-altered", format!("TAL name {:?} does not appear verbatim in the decoded status document", t), replay.clone()); }
                            rep.class(format!("status|tal:{}", str_class(t)));
                        }
                        let msgs: Vec<&String> = strings.iter().filter(|x| x.starts_with("rsync: ")).collect();
                        for m in &msgs { rep.class(format!("status|log:{}", str_class(m))); }
                        rep.count("status_log_messages_seen", msgs.len() as u64);
                    }
                    Err(e) => {
                        let txt = r.text();
                        let col = e.column();
                        let line = txt.lines().nth(e.line().saturating_sub(1)).unwrap_or("");
                        let ctxs: String = line.chars().skip(col.saturating_sub(40)).take(80).collect();
                        let kind = if e.to_string().contains("control character") { "control-character" } else { "other" };
                        rep.violation(format!("C22/status-invalid-json/{kind}"), format!("/api/v1/status is not valid JSON: {e}; near {:?}", ctxs), replay.clone());
                    }
                }
            }
            Ok(r) => rep.violation("C22/status-http", format!("/api/v1/status answered {}", r.status), replay.clone()),
            Err(e) => rep.inconclusive(format!("http: {e}")),
        }
        // metrics
        rep.eval();
        match http_get(s.srv.http_addr, "/metrics") {
            Ok(r) if r.status == 200 => {
                match parse_prometheus(&r.text()) {
                    Ok(samples) => {
                        let names: BTreeSet<&String> = samples.iter().filter_map(|x| x.1.get("name")).collect();
                        for t in &s.tal_names {
                            if !names.contains(t) { rep.violation("C22/metrics-tal-name-altered", format!("TAL name {:?} does not appear as a label value (after unescaping) in /metrics", t), replay.clone()); }
                            rep.class(format!("metrics|tal:{}", str_class(t)));
                        }
                        rep.count("metrics_samples_parsed", samples.len() as u64);
                    }
                    Err(e) => {
                        let kind = if e.contains("raw control") { "raw-control-character" } else if e.contains("escape") { "invalid-escape" } else if e.contains("expected ','") || e.contains("unterminated") || e.contains("trailing") { "unescaped-quote" } else { "other" };
                        rep.violation(format!("C22/metrics-malformed/{kind}"), format!("/metrics does not parse as Prometheus text format: {e}"), replay.clone());
                    }
                }
            }
            Ok(r) => rep.violation("C22/metrics-http", format!("/metrics answered {}", r.status), replay.clone()),
            Err(e) => rep.inconclusive(format!("http: {e}")),
        }
        if rep.samples.len() < 2 { rep.sample(json!({"tal_names": s.tal_names, "cas": s.world.cas.len()})); }
    }
    Hooks::uninstall();
}

//------------ C21 -----------------------------------------------------------

pub const C21: Check = Check {
    id: "C21",
    level: "exploration",
    rule: "same end-to-end setup as C22 (hostile TAL names and labels, real validated data with ROAs, router keys and ASPAs); for all \
           13 output formats x selector combinations (none, select-asn, select-prefix equal / less specific / more specific / \
           unrelated, with and without more-specifics, several selectors, type exclusions) the document is fetched from the HTTP \
           endpoint and produced with Output::write; per-format parsers (CSV family by field position, JSON/jsonext via serde_json, \
           SLURM via serde_json and rpki's SlurmFile, openbgpd/bird/rpsl line grammars) recover the listed items. Oracle: \
           documented selection semantics applied to the served data set; each item listed exactly once; JSON and SLURM are \
           valid JSON; SLURM parses back to exactly the listed assertions. distinct = (format, selector class, TAL-name class)",
    assumptions: &["for router keys and ASPAs only ASN selectors are judged (the manual defines prefix selection for VRPs only)",
                   "CSV/plain-text formats are parsed by field position; their well-formedness for hostile TAL names is not claimed by the property"],
    shards: |_| 8,
    watchdog: |t| Duration::from_secs(t.pick(600, 3600)),
    budget: |t| Duration::from_secs(t.pick(45, 300)),
    run: run_c21,
    crash_is_violation: false,
    finish: None,
};

#[derive(Default, Debug)]
struct Listed { vrps: Vec<Vrp>, keys: Vec<(u32, String)>, aspas: Vec<(u32, BTreeSet<u32>)> }

fn parse_prefix(s: &str) -> Option<(bool, u128, u8)> {
    let p = rpki::resources::Prefix::from_str(s).ok()?;
    let (v4, bits) = crate::pgen::ip_bits(p.addr());
    Some((v4, bits, p.len()))
}

fn asn_of(s: &str) -> Option<u32> { s.trim().trim_start_matches("AS").parse().ok() }

fn parse_format(format: &str, body: &[u8]) -> Result<Listed, String> {
    let mut l = Listed::default();
    let text = String::from_utf8_lossy(body).into_owned();
    match format {
        "csv" | "csvcompat" | "csvext" => {
            for (i, line) in text.split('\n').enumerate() {
                if i == 0 || line.is_empty() { continue }
                // hostile TAL names may contain newlines: continuation lines do not start with a record
                let f: Vec<&str> = line.splitn(if format == "csvext" { 5 } else { 4 }, ',').collect();
                let off = if format == "csvext" { 1 } else { 0 };
                if f.len() < 3 + off { continue }
                let clean = |x: &str| x.trim_matches('"').to_string();
                let (Some(a), Some(p), Ok(m)) = (asn_of(&clean(f[off])), parse_prefix(&clean(f[off + 1])), clean(f[off + 2]).parse::<u8>()) else {
                    if format == "csvext" && f[0].starts_with("rsync://") { return Err(format!("unparsable csv line {line:?}")) }
                    continue
                };
                l.vrps.push((p.0, p.1, p.2, m, a));
            }
        }
        "json" | "jsonext" => {
            let mut de = serde_json::Deserializer::from_slice(body);
            let v: Value = serde::Deserialize::deserialize(&mut de).map_err(|e| format!("invalid JSON: {e}"))?;
            de.end().map_err(|e| format!("trailing data: {e}"))?;
            for r in v.get("roas").and_then(|x| x.as_array()).unwrap_or(&vec![]) {
                let p = parse_prefix(r.get("prefix").and_then(|x| x.as_str()).ok_or("roa without prefix")?).ok_or("bad prefix")?;
                l.vrps.push((p.0, p.1, p.2, r.get("maxLength").and_then(|x| x.as_u64()).ok_or("no maxLength")? as u8, asn_of(r.get("asn").and_then(|x| x.as_str()).ok_or("no asn")?).ok_or("bad asn")?));
            }
            for k in v.get("routerKeys").and_then(|x| x.as_array()).unwrap_or(&vec![]) {
                let info = rpki::util::base64::Slurm.decode(k.get("routerPublicKey").and_then(|x| x.as_str()).ok_or("no key")?).map_err(|_| "bad base64")?;
                l.keys.push((asn_of(k.get("asn").and_then(|x| x.as_str()).ok_or("no asn")?).ok_or("bad asn")?, crate::pgen::hex(&info)));
            }
            for a in v.get("aspas").and_then(|x| x.as_array()).unwrap_or(&vec![]) {
                let c = asn_of(a.get("customer").and_then(|x| x.as_str()).ok_or("no customer")?).ok_or("bad asn")?;
                let p: BTreeSet<u32> = a.get("providers").and_then(|x| x.as_array()).ok_or("no providers")?.iter().filter_map(|x| x.as_str().and_then(asn_of)).collect();
                l.aspas.push((c, p));
            }
        }
        "slurm" | "slurm2" => {
            let mut de = serde_json::Deserializer::from_slice(body);
            let v: Value = serde::Deserialize::deserialize(&mut de).map_err(|e| format!("invalid JSON: {e}"))?;
            de.end().map_err(|e| format!("trailing data: {e}"))?;
            let file = rpki::slurm::SlurmFile::from_str(&text).map_err(|e| format!("does not parse as a SLURM file: {e}"))?;
            for a in &file.assertions.prefix {
                let (v4, bits) = crate::pgen::ip_bits(a.prefix.addr());
                l.vrps.push((v4, bits, a.prefix.prefix_len(), a.prefix.resolved_max_len(), a.asn.into_u32()));
            }
            for k in &file.assertions.bgpsec { l.keys.push((k.asn.into_u32(), crate::pgen::hex(k.router_public_key.as_ref()))); }
            let la = v.get("locallyAddedAssertions").ok_or("no locallyAddedAssertions")?;
            let n_json = la.get("prefixAssertions").and_then(|x| x.as_array()).map(|x| x.len()).unwrap_or(0);
            if n_json != l.vrps.len() { return Err("SLURM parse-back lists a different number of prefix assertions than the JSON".into()) }
            for a in la.get("aspaAssertions").and_then(|x| x.as_array()).unwrap_or(&vec![]) {
                let c = a.get("customerAsn").and_then(|x| x.as_u64()).ok_or("no customerAsn")? as u32;
                let p: BTreeSet<u32> = a.get("providerAsns").and_then(|x| x.as_array()).ok_or("no providerAsns")?.iter().filter_map(|x| x.as_u64().map(|y| y as u32)).collect();
                l.aspas.push((c, p));
            }
        }
        "openbgpd" => {
            for line in text.lines() {
                let t: Vec<&str> = line.split_whitespace().collect();
                if t.is_empty() || t[0] == "roa-set" || t[0] == "}" { continue }
                let p = parse_prefix(t[0]).ok_or_else(|| format!("bad line {line:?}"))?;
                let (max, asn) = if t.len() == 5 && t[1] == "maxlen" && t[3] == "source-as" { (t[2].parse::<u8>().map_err(|_| "bad maxlen")?, t[4]) }
                    else if t.len() == 3 && t[1] == "source-as" { (p.2, t[2]) } else { return Err(format!("bad line {line:?}")) };
                l.vrps.push((p.0, p.1, p.2, max, asn.parse().map_err(|_| "bad asn")?));
            }
        }
        "bird1" | "bird2" => {
            let kw = if format == "bird1" { "roa" } else { "route" };
            for line in text.lines() {
                if line.trim().is_empty() { continue }
                let t: Vec<&str> = line.trim_end_matches(';').split_whitespace().collect();
                if t.len() != 6 || t[0] != kw || t[2] != "max" || t[4] != "as" { return Err(format!("bad line {line:?}")) }
                let p = parse_prefix(t[1]).ok_or("bad prefix")?;
                l.vrps.push((p.0, p.1, p.2, t[3].parse().map_err(|_| "bad max")?, t[5].parse().map_err(|_| "bad asn")?));
            }
        }
        "rpsl" => {
            let mut cur: Option<(bool, u128, u8)> = None;
            for line in text.lines() {
                if let Some(r) = line.strip_prefix("route: ").or_else(|| line.strip_prefix("route6: ")) { cur = parse_prefix(r.trim()); }
                else if let Some(o) = line.strip_prefix("origin: ") { if let (Some(p), Some(a)) = (cur.take(), asn_of(o)) { l.vrps.push((p.0, p.1, p.2, 0, a)); } }
            }
        }
        _ => {}
    }
    Ok(l)
}

#[derive(Clone, Debug)]
struct Sel { asns: Vec<u32>, prefixes: Vec<(bool, u128, u8)>, more: bool, no_origins: bool, no_keys: bool, no_aspas: bool }

impl Sel {
    fn query(&self) -> String {
        let mut q = Vec::new();
        for a in &self.asns { q.push(format!("select-asn=AS{a}")); }
        for p in &self.prefixes { q.push(format!("select-prefix={}", pfx(*p).replace(':', "%3A").replace('/', "%2F"))); }
        if self.more { q.push("include=more-specifics".into()); }
        let mut ex = Vec::new();
        if self.no_origins { ex.push("routeOrigins") } if self.no_keys { ex.push("routerKeys") } if self.no_aspas { ex.push("aspas") }
        if !ex.is_empty() { q.push(format!("exclude={}", ex.join(","))); }
        q.join("&")
    }
    fn has_sel(&self) -> bool { !self.asns.is_empty() || !self.prefixes.is_empty() }
    fn vrp(&self, v: &Vrp) -> bool {
        if self.no_origins { return false }
        if !self.has_sel() { return true }
        self.asns.contains(&v.4) || self.prefixes.iter().any(|p| p.0 == v.0 && (
            (v.2 <= p.2 && overlaps(v.1, v.2, p.1, v.2)) || (self.more && p.2 <= v.2 && overlaps(p.1, p.2, v.1, p.2))))
    }
}

fn pfx(p: (bool, u128, u8)) -> String {
    if p.0 { format!("{}/{}", std::net::Ipv4Addr::from((p.1 >> 96) as u32), p.2) } else { format!("{}/{}", std::net::Ipv6Addr::from(p.1), p.2) }
}

fn gen_sel(rng: &mut Rng, data: &Observed) -> (Sel, String) {
    let vr: Vec<Vrp> = data.vrps.iter().cloned().collect();
    let mut s = Sel { asns: vec![], prefixes: vec![], more: false, no_origins: false, no_keys: false, no_aspas: false };
    let mut class = Vec::new();
    match rng.usize(7) {
        0 => { class.push("none") }
        1 => { if !vr.is_empty() { s.asns.push(vr[rng.usize(vr.len())].4); } else { s.asns.push(64999) } if rng.bool() { s.asns.push(64998); } class.push("asn") }
        2 | 3 | 4 => {
            if !vr.is_empty() {
                let v = vr[rng.usize(vr.len())];
                let maxl = if v.0 { 32 } else { 128 };
                let (l, c) = match rng.usize(3) { 0 => (v.2, "prefix-equal"), 1 => ((v.2 + 1 + rng.usize(4) as u8).min(maxl), "prefix-more-specific"), _ => (v.2.saturating_sub(1 + rng.usize(8) as u8), "prefix-less-specific") };
                let bits = if l == 0 { 0 } else { v.1 & (u128::MAX << (128 - l as u32)) };
                s.prefixes.push((v.0, bits, l)); class.push(c);
            } else { s.prefixes.push((true, (198u128 << 120) | (51u128 << 112), 16)); class.push("prefix-unrelated") }
            s.more = rng.bool(); if s.more { class.push("more") }
        }
        5 => { s.prefixes.push((true, (198u128 << 120) | (51u128 << 112), 16)); if let Some(v) = vr.first() { s.asns.push(v.4); } class.push("mixed") }
        _ => { if let Some(kk) = data.keys.iter().next() { s.asns.push(kk.0) } if let Some(a) = data.aspas.keys().next() { s.asns.push(*a) } class.push("asn-of-key-or-aspa") }
    }
    if rng.chance(1, 4) { s.no_origins = true; class.push("xo") }
    if rng.chance(1, 4) { s.no_keys = true; class.push("xk") }
    if rng.chance(1, 4) { s.no_aspas = true; class.push("xa") }
    (s, class.join("+"))
}

fn run_c21(ctx: &mut Ctx, rep: &mut Report) {
    crate::caplog::install(log::LevelFilter::Info);
    let hooks = Hooks::install();
    hooks.set_record(false);
    let mut rng = ctx.rng("c21");
    let mut b = match Builder::new() { Ok(b) => b, Err(e) => { rep.inconclusive(e); return } };
    let formats = ["csv", "csvcompat", "csvext", "json", "jsonext", "slurm", "slurm2", "openbgpd", "bird1", "bird2", "rpsl", "summary", "none"];
    let n = ctx.tier.pick(5usize, 80);
    for i in 0..n {
        if !ctx.time_left() { rep.note("time budget reached"); break }
        ctx.begin_case(&json!({"case": i}));
        let s = match setup(ctx, &mut rng, &mut b, &hooks) { Ok(s) => s, Err(e) => { rep.inconclusive(format!("setup: {e}")); continue } };
        let tal_class = { let mut c: Vec<String> = s.tal_names.iter().map(|t| str_class(t)).collect(); c.sort(); c.dedup(); c.join("/") };
        let (snap, metrics) = { let h = s.srv.history.read(); (h.current().unwrap(), h.metrics().unwrap()) };
        for _ in 0..ctx.tier.pick(6, 12) {
            let (sel, sel_class) = gen_sel(&mut rng, &s.expected);
            let q = sel.query();
            for f in formats.iter() {
                rep.eval();
                let target = if q.is_empty() { format!("/{f}") } else { format!("/{f}?{q}") };
                let replay = json!({"target": target, "tal_names": s.tal_names, "seed": ctx.seed, "shard": ctx.shard, "case": i});
                let r = match http_get(s.srv.http_addr, &target) { Ok(r) => r, Err(e) => { rep.inconclusive(format!("http: {e}")); continue } };
                if r.status != 200 { rep.violation("C21/http-status", format!("{target}: status {}", r.status), replay); continue }
                // library path must produce the same bytes
                let mut out = Output::from_config(&s.srv.config);
                if out.update_from_query(if q.is_empty() { None } else { Some(&q) }).is_ok() {
                    let mut buf = Vec::new();
                    let fmt = OutputFormat::from_str(f).unwrap();
                    let _ = out.write(snap.clone(), Arc::clone(&metrics), fmt, &mut buf);
                    if *f != "rpsl" && buf != r.body { rep.violation(format!("C21/{f}/stream-differs-from-write"), format!("{target}: HTTP body differs from Output::write"), replay.clone()); }
                }
                let listed = match parse_format(f, &r.body) {
                    Ok(l) => l,
                    Err(e) => {
                        let kind = if e.contains("invalid JSON") { "invalid-json" } else if e.contains("SLURM") { "slurm-parse-back" } else { "malformed" };
                        rep.violation(format!("C21/{f}/{kind}"), format!("{target}: {e} (TAL names {:?})", s.tal_names), replay); continue
                    }
                };
                if *f == "summary" || *f == "none" { if *f == "none" && !r.body.is_empty() { rep.violation("C21/none/not-empty", "format none produced output", replay.clone()); } rep.class(format!("{f}|{sel_class}|{tal_class}")); continue }
                // origins
                let exp_v: BTreeSet<Vrp> = s.expected.vrps.iter().filter(|v| sel.vrp(v)).cloned().map(|v| if *f == "rpsl" { (v.0, v.1, v.2, 0, v.4) } else { v }).collect();
                let got_v: BTreeSet<Vrp> = listed.vrps.iter().cloned().collect();
                if *f != "rpsl" && got_v.len() != listed.vrps.len() { rep.violation(format!("C21/{f}/item-listed-twice"), format!("{target}: a VRP is listed more than once"), replay.clone()); }
                if got_v != exp_v {
                    let miss: Vec<String> = exp_v.difference(&got_v).take(2).map(fmt_vrp).collect();
                    let extra: Vec<String> = got_v.difference(&exp_v).take(2).map(fmt_vrp).collect();
                    rep.violation(format!("C21/{f}/vrp-selection"), format!("{target}: listed VRPs differ from the documented selection: missing {:?} extra {:?}", miss, extra), replay.clone());
                }
                // router keys / aspas (formats that carry them)
                let carries_keys = ["json", "jsonext", "slurm", "slurm2"].contains(f);
                let carries_aspas = ["json", "jsonext", "slurm2"].contains(f);
                if carries_keys && sel.prefixes.is_empty() {
                    let exp: BTreeSet<(u32, String)> = if sel.no_keys { BTreeSet::new() } else { s.expected.keys.iter().filter(|k| !sel.has_sel() || sel.asns.contains(&k.0)).cloned().collect() };
                    let got: BTreeSet<(u32, String)> = listed.keys.iter().cloned().collect();
                    if got != exp || got.len() != listed.keys.len() { rep.violation(format!("C21/{f}/router-key-selection"), format!("{target}: listed router keys differ from the selection ({} listed, {} expected)", listed.keys.len(), exp.len()), replay.clone()); }
                }
                if carries_aspas && sel.prefixes.is_empty() {
                    let exp: BTreeMap<u32, BTreeSet<u32>> = if sel.no_aspas { BTreeMap::new() } else { s.expected.aspas.iter().filter(|a| !sel.has_sel() || sel.asns.contains(a.0)).map(|(a, p)| (*a, p.clone())).collect() };
                    let got: BTreeMap<u32, BTreeSet<u32>> = listed.aspas.iter().cloned().collect();
                    if got != exp || got.len() != listed.aspas.len() { rep.violation(format!("C21/{f}/aspa-selection"), format!("{target}: listed ASPAs differ from the selection ({} listed, {} expected)", listed.aspas.len(), exp.len()), replay.clone()); }
                }
                rep.class(format!("{f}|{sel_class}|{tal_class}"));
            }
        }
        if rep.samples.len() < 2 { rep.sample(json!({"tal_names": s.tal_names, "vrps": s.expected.vrps.len(), "keys": s.expected.keys.len(), "aspas": s.expected.aspas.len()})); }
    }
    Hooks::uninstall();
}
