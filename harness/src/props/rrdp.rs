//! RRDP / HTTPS properties through the fake HTTPS proxy: C38 (object size
//! limit), C31 (dubious hosts), C29 (fallback policy table).

use std::collections::BTreeMap;
use std::time::Duration;
use serde_json::json;
use routinator::config::FallbackPolicy;
use routinator::slurm::LocalExceptions;
use crate::core::{Check, Ctx, Report, Rng};
use crate::net::https::{FakeHttps, Reply};
use crate::net::rrdp::Faults;
use crate::world::build::Builder;
use crate::world::oracle::*;
use crate::world::rrdpserve::RrdpServers;
use crate::world::run::{run_engine, Env};
use crate::world::spec::*;

fn now_ts() -> i64 { chrono::Utc::now().timestamp() }

//------------ C38 -----------------------------------------------------------

pub const C38: Check = Check {
    id: "C38",
    level: "fault_enumeration",
    rule: "two legs through the TLS-terminating fake. (a) trust anchor certificate over HTTPS of size s with max-object-size in \
           {disabled, s-1, s, s+1, default}, response with and without Content-Length (chunked): the TAL must contribute iff the \
           limit is disabled or s <= limit. (b) RRDP repository whose snapshot (and, in a second step, delta) carries an object of \
           size s with the limit in {disabled, s-1, s, s+1}: with fallback to rsync disabled the CA's payload is present iff the \
           object is within the limit. exhaustive over that product for generated worlds. distinct = (leg, limit class, \
           content-length?, outcome) classes",
    assumptions: &["rsync's own --max-size handling is outside this check (custom rsync-args are used)"],
    shards: |_| 8,
    watchdog: |t| Duration::from_secs(t.pick(600, 3600)),
    budget: |t| Duration::from_secs(t.pick(45, 300)),
    run: run_c38,
    crash_is_violation: false,
    finish: None,
};

fn single_ca_world(rng: &mut Rng, rrdp: bool) -> World {
    let mut w = gen_chain(rng, now_ts(), 0, 3);
    w.cas[0].rrdp = rrdp;
    w.cas[0].repo = 0;
    w
}

fn run_c38(ctx: &mut Ctx, rep: &mut Report) {
    let mut rng = ctx.rng("c38");
    let mut b = match Builder::new() { Ok(b) => b, Err(e) => { rep.inconclusive(e); return } };
    let fake = match FakeHttps::start() { Ok(f) => f, Err(e) => { rep.inconclusive(format!("fake https: {e}")); return } };
    let rounds = ctx.tier.pick(2usize, 12);
    let mut case_no = 0usize;
    for round in 0..rounds {
        // (a) TA over HTTPS
        let w = single_ca_world(&mut rng, false);
        let p = b.publish(&w);
        let ta = p.files.get(&w.ta_uri(0, 0)).unwrap().clone();
        let s = ta.len() as u64;
        for (lname, limit) in [("disabled", None), ("s-1", Some(s - 1)), ("s", Some(s)), ("s+1", Some(s + 1)), ("default", Some(20_000_000u64))] {
            for chunked in [false, true] {
                case_no += 1;
                if case_no % ctx.shards != ctx.shard { continue }
                if !ctx.time_left() { rep.note("time budget reached"); return }
                let mut env = Env::new(&ctx.scratch.join("env"));
                fake.clear();
                fake.configure(&mut env.config);
                env.config.max_object_size = limit;
                env.serve(&p);
                // TAL with an HTTPS URI only
                let tal = &p.tals[0].1;
                let key_part = tal.split("\n\n").nth(1).unwrap_or("");
                let url = "https://ta.rpki.test/ta/root.cer";
                std::fs::write(env.config.extra_tals_dir.as_ref().unwrap().join("chain.tal"), format!("{url}\n\n{key_part}")).unwrap();
                let mut reply = Reply::ok(ta.to_vec());
                reply.chunked = chunked;
                fake.set(url, reply);
                ctx.begin_case(&json!({"leg": "ta", "limit": lname, "chunked": chunked}));
                let out = run_engine(&env.config, true, &LocalExceptions::empty());
                rep.eval();
                let replay = json!({"leg": "https-ta", "ta_size": s, "limit": limit, "content_length": !chunked});
                let Some(snap) = out.snapshot else { rep.inconclusive("run failed"); continue };
                let got = !observe(&snap).vrps.is_empty() || !observe(&snap).aspas.is_empty() || !observe(&snap).keys.is_empty();
                let e = expect_fresh(&w, w.now, &Policy::default());
                let has_payload = !e.vrps.is_empty() || !e.aspas.is_empty() || !e.keys.is_empty();
                if !has_payload { rep.note("world without payload"); continue }
                let want = limit.map(|l| s <= l).unwrap_or(true);
                let fetched = fake.take_log().iter().any(|l| l.method == "GET" && l.path == "/ta/root.cer");
                if !fetched { rep.inconclusive("the fake never saw the TA request"); continue }
                if got != want {
                    let sig = if want { format!("C38/ta-within-limit-refused/limit-{lname}/{}", if chunked { "no-content-length" } else { "content-length" }) }
                        else { format!("C38/ta-above-limit-accepted/limit-{lname}/{}", if chunked { "no-content-length" } else { "content-length" }) };
                    rep.violation(sig, format!("HTTPS trust anchor of {s} bytes with max-object-size {:?} ({}): used = {got}, expected {want}", limit, if chunked { "no Content-Length" } else { "with Content-Length" }), replay);
                }
                rep.class(format!("ta|{lname}|cl{}|used{}", !chunked as u8, got as u8));
            }
        }
        // (b) RRDP objects
        let w = single_ca_world(&mut rng, true);
        let p = b.publish(&w);
        let biggest = p.files.iter().filter(|(u, _)| u.starts_with("rsync://r0.rpki.test/")).map(|(_, b)| b.len() as u64).max().unwrap_or(0);
        for (lname, limit) in [("disabled", None), ("s-1", Some(biggest - 1)), ("s", Some(biggest)), ("s+1", Some(biggest + 1))] {
            for via_delta in [false, true] {
                case_no += 1;
                if case_no % ctx.shards != ctx.shard { continue }
                if !ctx.time_left() { rep.note("time budget reached"); return }
                let mut env = Env::new(&ctx.scratch.join("env"));
                fake.clear();
                fake.configure(&mut env.config);
                env.config.max_object_size = limit;
                env.config.rrdp_fallback = FallbackPolicy::Never;
                env.config.disable_rsync = false;
                let mut servers = RrdpServers::default();
                // The TA itself comes via rsync (module ta0u0...), the CA's point only via RRDP.
                let mut p_rsync_only = p.clone();
                p_rsync_only.files.retain(|u, _| !u.starts_with("rsync://r0.rpki.test/"));
                env.serve(&p_rsync_only);
                let mut expect_present;
                if via_delta {
                    // first a small version (without the big objects), then the real one as a delta
                    let mut w0 = w.clone();
                    w0.cas[0].objects.clear(); w0.cas[0].mft_number -= 1; w0.cas[0].mft_this -= 600; w0.cas[0].crl_this -= 600; w0.cas[0].mft_ee_nb -= 600;
                    let p0 = b.publish(&w0);
                    let small_max = p0.files.iter().filter(|(u, _)| u.starts_with("rsync://r0.rpki.test/")).map(|(_, b)| b.len() as u64).max().unwrap_or(0);
                    if limit.map(|l| small_max > l).unwrap_or(false) { continue }
                    servers.publish(&w0, &p0, &fake, &BTreeMap::new());
                    let _ = run_engine(&env.config, true, &LocalExceptions::empty());
                    servers.publish(&w, &p, &fake, &BTreeMap::new());
                    expect_present = limit.map(|l| biggest <= l).unwrap_or(true);
                } else {
                    servers.publish(&w, &p, &fake, &BTreeMap::new());
                    expect_present = limit.map(|l| biggest <= l).unwrap_or(true);
                }
                fake.take_log();
                ctx.begin_case(&json!({"leg": "rrdp", "limit": lname, "via_delta": via_delta}));
                let out = run_engine(&env.config, true, &LocalExceptions::empty());
                rep.eval();
                let replay = json!({"leg": "rrdp-object", "biggest_object": biggest, "limit": limit, "via_delta": via_delta});
                let Some(snap) = out.snapshot else { rep.inconclusive("run failed"); continue };
                let log = fake.take_log();
                if !log.iter().any(|l| l.path.ends_with("notification.xml")) { rep.inconclusive("the fake never saw the notification request"); continue }
                let e = expect_fresh(&w, w.now, &Policy::default());
                if e.vrps.is_empty() && e.aspas.is_empty() && e.keys.is_empty() { expect_present = false; }
                let o = observe(&snap);
                let present = !o.vrps.is_empty() || !o.aspas.is_empty() || !o.keys.is_empty();
                if present != expect_present && !(e.vrps.is_empty() && e.aspas.is_empty() && e.keys.is_empty()) {
                    let sig = if expect_present { format!("C38/rrdp-object-within-limit-refused/limit-{lname}") } else { format!("C38/rrdp-object-above-limit-accepted/limit-{lname}") };
                    rep.violation(sig, format!("RRDP {} with a {biggest}-byte object and max-object-size {:?}: payload present = {present}, expected {expect_present}", if via_delta { "delta" } else { "snapshot" }, limit), replay);
                }
                rep.class(format!("rrdp|{lname}|delta{}|present{}", via_delta as u8, present as u8));
            }
        }
        let _ = round;
    }
    rep.sample(json!({"legs": ["https trust anchor", "rrdp snapshot object", "rrdp delta object"], "limits": ["disabled", "s-1", "s", "s+1", "default"]}));
}

//------------ C31 -----------------------------------------------------------

pub const C31: Check = Check {
    id: "C31",
    level: "exploration",
    rule: "worlds (root on ordinary hosts, child CA below it) where the child's caRepository host or its rpkiNotify host takes every \
           form of a table: ordinary names, 'localhost' in all case variants, names merely containing localhost, IPv4 literals, \
           bracketed IPv6 literals (upper/lower case, v4-mapped), and each of them with an explicit port; run with \
           allow-dubious-hosts off and on (half of the 'off' runs follow a run on the same cache with the option on), RRDP and rsync both enabled, all three fallback policies. Observation at the peers: the \
           fake rsync's invocation log and the fake HTTPS proxy's CONNECT/GET log. Oracle (own classifier): with the option off, \
           no logged request may target a host that is 'localhost' (ignoring case), an IP literal or carries a port; with the \
           option on the request must be seen (shows the observation channel is live). distinct = (host form, which URI, option) classes",
    assumptions: &["host forms that rpki's URI parser rejects cannot appear in a certificate the validator accepts and are skipped (counted)"],
    shards: |_| 8,
    watchdog: |t| Duration::from_secs(t.pick(600, 3600)),
    budget: |t| Duration::from_secs(t.pick(45, 300)),
    run: run_c31,
    crash_is_violation: false,
    finish: None,
};

/// Independent classifier of the property's wording. `None` = the wording
/// does not decide the form (not judged).
fn dubious_host(authority: &str) -> (Option<bool>, &'static str) {
    let a = authority;
    // bracketed literal, possibly with port
    if a.starts_with('[') {
        return (Some(true), if a.contains("]:") { "ipv6-literal-with-port" } else { "ipv6-literal" })
    }
    let (host, port) = match a.rsplit_once(':') { Some((h, p)) => (h, Some(p)), None => (a, None) };
    let is_v4 = { let parts: Vec<&str> = host.split('.').collect(); parts.len() == 4 && parts.iter().all(|p| !p.is_empty() && p.len() <= 3 && p.chars().all(|c| c.is_ascii_digit()) && p.parse::<u32>().map(|n| n < 256).unwrap_or(false)) };
    let is_local = host.eq_ignore_ascii_case("localhost");
    match port {
        Some(p) => {
            if is_v4 { return (Some(true), if p.is_empty() { "ipv4-literal-with-empty-port" } else { "ipv4-literal-with-port" }) }
            if is_local { return (Some(true), if p.is_empty() { "localhost-with-empty-port" } else { "localhost-with-port" }) }
            // an empty port after a name is not an explicit port; not judged
            if p.is_empty() { return (None, "name-with-empty-port") }
            (Some(true), if p.chars().all(|c| c.is_ascii_digit()) { "name-with-port" } else { "name-with-non-numeric-port" })
        }
        None => {
            if is_v4 { return (Some(true), "ipv4-literal") }
            if is_local { return (Some(true), if host == "localhost" { "localhost" } else { "localhost-case-variant" }) }
            (Some(false), "name")
        }
    }
}

const HOST_FORMS: &[&str] = &[
    "r1.rpki.test", "R1.Rpki.Test", "localhost.rpki.test", "notlocalhost", "localhost4",
    "localhost", "LOCALHOST", "LocalHost", "localHOST", "Localhost",
    "127.0.0.1", "10.1.2.3", "192.0.2.1", "0.0.0.0", "255.255.255.255", "1.1.1.1",
    "[::1]", "[2001:db8::1]", "[2001:DB8::A]", "[::ffff:127.0.0.1]", "[fe80::1]",
    "r1.rpki.test:873", "r1.rpki.test:8873", "r1.rpki.test:443", "R1.RPKI.TEST:8443", "localhost:873", "LOCALHOST:443",
    "127.0.0.1:873", "127.0.0.1:443", "[::1]:873", "[::1]:8443",
    "localhost:", "LOCALHOST:", "127.0.0.1:", "10.1.2.3:", "r1.rpki.test:", "r1.rpki.test:rsync", "r1.rpki.test:https", "r1.rpki.test:99999",
    "localhost:rsync", "127.0.0.1:99999", "r1.rpki.test:0",
];

fn run_c31(ctx: &mut Ctx, rep: &mut Report) {
    use std::str::FromStr;
    let mut rng = ctx.rng("c31");
    let mut b = match Builder::new() { Ok(b) => b, Err(e) => { rep.inconclusive(e); return } };
    let fake = match FakeHttps::start() { Ok(f) => f, Err(e) => { rep.inconclusive(format!("fake https: {e}")); return } };
    let rounds = ctx.tier.pick(1usize, 6);
    let mut case_no = 0usize;
    for _round in 0..rounds {
        for form in HOST_FORMS {
            // which URI carries the form: 0 = caRepository of an rsync-only CA, 1 = rpkiNotify (rsync host ordinary),
            // 2 = caRepository of a CA that also announces RRDP on an ordinary host
            for which in 0..3usize {
                for allow in [false, true] {
                    case_no += 1;
                    if case_no % ctx.shards != ctx.shard { continue }
                    if !ctx.time_left() { rep.note("time budget reached"); return }
                    let rsync_ok = rpki::uri::Rsync::from_str(&format!("rsync://{form}/repo/ca1/")).is_ok();
                    let https_ok = rpki::uri::Https::from_str(&format!("https://{form}/rrdp/notification.xml")).is_ok();
                    if (which != 1 && !rsync_ok) || (which == 1 && !https_ok) { rep.count("host_forms_rejected_by_uri_parser", 1); rep.class(format!("unrepresentable|{form}|{which}")); continue }
                    let mut w = gen_chain(&mut rng, now_ts(), 1, 2);
                    w.cas[0].repo = 0; w.cas[1].repo = 1;
                    match which {
                        0 => { w.cas[1].rrdp = false; w.host_override.insert(1, form.to_string()); }
                        1 => { w.cas[1].rrdp = true; w.notify_host_override.insert(1, form.to_string()); }
                        _ => { w.cas[1].rrdp = true; w.host_override.insert(1, form.to_string()); w.notify_host_override.insert(1, "n1.rpki.test".into()); }
                    }
                    let p = b.publish(&w);
                    let mut env = Env::new(&ctx.scratch.join("env"));
                    fake.clear();
                    fake.configure(&mut env.config);
                    env.config.allow_dubious_hosts = allow;
                    env.config.disable_rsync = false;
                    env.config.rrdp_fallback = *rng.pick(&[FallbackPolicy::Never, FallbackPolicy::Stale, FallbackPolicy::New]);
                    // RRDP of the child fails in case 2 half of the time so that the rsync fallback is exercised too.
                    let mut faults = BTreeMap::new();
                    let rrdp_fails = which == 2 && rng.bool();
                    if rrdp_fails { faults.insert(1usize, Faults { notify_status: Some(500), ..Default::default() }); }
                    env.serve(&p);
                    let mut servers = RrdpServers::default();
                    servers.publish(&w, &p, &fake, &faults);
                    // history: half of the "not allowed" cases follow a run on the same cache in which dubious hosts were
                    // allowed (so local copies of their modules / repositories exist already)
                    let after_allowed = !allow && rng.bool();
                    if after_allowed {
                        env.config.allow_dubious_hosts = true;
                        let _ = run_engine(&env.config, true, &LocalExceptions::empty());
                        env.config.allow_dubious_hosts = false;
                    }
                    fake.take_log();
                    env.clear_rsync_log();
                    ctx.begin_case(&json!({"form": form, "which": which, "allow": allow, "after_allowed_run": after_allowed}));
                    let out = run_engine(&env.config, true, &LocalExceptions::empty());
                    rep.eval();
                    if out.snapshot.is_none() { rep.inconclusive("run failed"); continue }
                    let (dubious, class) = dubious_host(form);
                    let target = form.to_ascii_lowercase().trim_end_matches(':').to_string();
                    let which_s = ["caRepository", "rpkiNotify", "caRepository+rrdp"][which];
                    // requests that reached the peers for this authority
                    let rsync_hits: Vec<String> = env.rsync_log().iter().filter_map(|l| l.get("module").and_then(|m| m.as_str()).map(|s| s.to_string()))
                        .filter(|m| m.split('/').next().map(|h| h.trim_end_matches(':').eq_ignore_ascii_case(&target)).unwrap_or(false)).collect();
                    let https_hits: Vec<String> = fake.take_log().iter().filter(|l| {
                        let t = l.path.to_ascii_lowercase(); let h = l.host.to_ascii_lowercase();
                        // CONNECT target is host:port; the authority with explicit port equals the target, without port the host
                        (l.method == "CONNECT" && (t == target || h == target || t == format!("{target}:443"))) || (l.method != "CONNECT" && h == target)
                    }).map(|l| format!("{} {}", l.method, l.path)).collect();
                    let replay = json!({"host": form, "uri": which_s, "allow_dubious_hosts": allow, "world": w, "rsync_requests": rsync_hits, "https_requests": https_hits});
                    let seen = !rsync_hits.is_empty() || !https_hits.is_empty();
                    let judged = dubious.is_some();
                    let dubious = dubious.unwrap_or(false);
                    if !judged { rep.class(format!("{class}|{form}|{which_s}|allow{}|seen{}|not-judged", allow as u8, seen as u8)); rep.count("forms_not_judged", 1); continue }
                    if dubious && !allow {
                        if !rsync_hits.is_empty() {
                            rep.violation(format!("C31/rsync-request-to-dubious-host/{class}"), format!("rsync was started for {} (host '{form}' in {which_s}) although dubious hosts are not allowed", rsync_hits[0]), replay.clone());
                        }
                        if !https_hits.is_empty() {
                            rep.violation(format!("C31/rrdp-request-to-dubious-host/{class}"), format!("an HTTPS request was started: {} (host '{form}' in {which_s}) although dubious hosts are not allowed", https_hits[0]), replay.clone());
                        }
                    } else if !seen {
                        // vacuity guard: the channel must show the request when it is permitted
                        let expected_rsync = which == 0 || (which == 2 && rrdp_fails && env.config.rrdp_fallback != FallbackPolicy::Never);
                        // the HTTP client cannot express a non-numeric or out-of-range port: no request can exist
                        let port_ok = match form.rsplit_once(':') { Some((_, p)) if !form.starts_with('[') => p.is_empty() || p.parse::<u16>().is_ok(), _ => true };
                        let expected_https = which == 1 && port_ok;
                        if expected_rsync || expected_https { rep.inconclusive(format!("permitted request for host '{form}' ({which_s}, allow={allow}) never reached the fakes")); rep.count("permitted_request_not_seen", 1); }
                    }
                    rep.class(format!("{class}|{form}|{which_s}|allow{}|seen{}|hist{}", allow as u8, seen as u8, after_allowed as u8));
                    if seen { rep.count("requests_seen_for_host_under_test", 1); }
                    if dubious && !allow && !seen { rep.count("dubious_blocked", 1); }
                    if rep.samples.len() < 2 && dubious && allow && seen { rep.sample(json!({"host": form, "uri": which_s, "rsync": rsync_hits, "https": https_hits})); }
                }
            }
        }
    }
}

//------------ C29 -----------------------------------------------------------

pub const C29: Check = Check {
    id: "C29",
    level: "fault_enumeration",
    rule: "full product fallback policy {never,stale,new} x RRDP outcome {updated(snapshot), updated(delta), not-modified, failed with \
           current copy, failed with a copy whose first best-before date has passed but which a later no-change update (304 or same serial) made current again, failed with expired copy (virtual clock moved past rrdp-fallback-time), failed with no copy} x RRDP enabled/disabled x rsync \
           enabled/disabled x child CA with/without rpkiNotify. The child's publication point exists in three versions with different \
           marker VRPs: v1 (primed/stored), v2 (current RRDP content), v3 (rsync content), so the served payload names the transport \
           that was used; the fake rsync log and fake HTTPS log name the transport that was asked. Oracle: decision table written from \
           the property statement. distinct = table cells",
    assumptions: &["'expired' is produced by moving the virtual wall clock beyond refresh/rrdp-fallback-time after a successful update"],
    shards: |_| 8,
    watchdog: |t| Duration::from_secs(t.pick(600, 3600)),
    budget: |t| Duration::from_secs(t.pick(60, 300)),
    run: run_c29,
    crash_is_violation: false,
    finish: Some(finish_c29),
};

#[derive(Clone, Copy, Debug, PartialEq, Eq)]
enum Outcome { UpdatedSnapshot, UpdatedDelta, NotModified, FailedCurrent, FailedCurrentRefreshed304, FailedCurrentRefreshedSameSerial, FailedStale, FailedNoCopy }

#[derive(Clone, Copy, Debug, PartialEq, Eq)]
enum Transport { Rrdp, Rsync, NoFetch }

fn bump(w: &World, ca: usize, version: usize) -> World {
    let mut w = w.clone();
    let now = w.now;
    let c = &mut w.cas[ca];
    c.mft_number += version as u64; c.mft_this += 120 * version as i64; c.crl_this = c.mft_this; c.mft_ee_nb = c.mft_this - 60; c.mft_serial += version as u64;
    c.objects.retain(|o| o.name != "marker.roa");
    let mut m = crate::props::hist::marker(ca, version); m.nb = now - DAY; m.na = now + 50 * DAY;
    c.objects.push(m);
    w
}

fn run_c29(ctx: &mut Ctx, rep: &mut Report) {
    let mut rng = ctx.rng("c29");
    let mut b = match Builder::new() { Ok(b) => b, Err(e) => { rep.inconclusive(e); return } };
    let fake = match FakeHttps::start() { Ok(f) => f, Err(e) => { rep.inconclusive(format!("fake https: {e}")); return } };
    if !crate::clock::self_test() { rep.inconclusive("virtual clock shim inactive"); return }
    let rounds = ctx.tier.pick(1usize, 5);
    let mut case_no = 0usize;
    let outcomes = [Outcome::UpdatedSnapshot, Outcome::UpdatedDelta, Outcome::NotModified, Outcome::FailedCurrent, Outcome::FailedCurrentRefreshed304, Outcome::FailedCurrentRefreshedSameSerial, Outcome::FailedStale, Outcome::FailedNoCopy];
    for _round in 0..rounds {
        let base = { let mut w = gen_chain(&mut rng, now_ts() - 600, 1, 2); w.cas[0].repo = 0; w.cas[1].repo = 1; w.cas[0].rrdp = true;
            let mut m = crate::props::hist::marker(0, 0); m.nb = w.now - DAY; m.na = w.now + 50 * DAY; w.cas[0].objects.push(m); w };
        for policy in [FallbackPolicy::Never, FallbackPolicy::Stale, FallbackPolicy::New] {
        for outcome in outcomes {
        for rrdp_on in [true, false] {
        for rsync_on in [true, false] {
        for notify in [true, false] {
            // outcomes only differ when RRDP is consulted for the child
            if (!rrdp_on || !notify) && outcome != Outcome::UpdatedSnapshot && outcome != Outcome::FailedCurrent { continue }
            case_no += 1;
            if case_no % ctx.shards != ctx.shard { continue }
            if !ctx.time_left() { rep.note("time budget reached"); crate::clock::set_offset(0); return }
            crate::clock::set_offset(0);
            let mut w0 = base.clone();
            w0.cas[1].rrdp = notify;
            let w1 = bump(&w0, 1, 1);
            let w2 = bump(&w0, 1, 2);
            let w3 = bump(&w0, 1, 3);
            let (p1, p2, p3) = (b.publish(&w1), b.publish(&w2), b.publish(&w3));
            let ta = p1.files.get(&w1.ta_uri(0, 0)).unwrap().clone();
            let ta_url = "https://ta.rpki.test/ta/root.cer";
            let with_https_tal = |p: &crate::world::build::Published| { let mut p = p.clone(); p.tals[0].1 = format!("{ta_url}\n{}", p.tals[0].1); p };
            let mut env = Env::new(&ctx.scratch.join("env"));
            fake.clear();
            fake.configure(&mut env.config);
            env.config.rrdp_fallback = policy;
            env.config.refresh = Duration::from_secs(10);
            env.config.rrdp_fallback_time = Duration::from_secs(30);
            env.config.disable_rrdp = !rrdp_on;
            env.config.disable_rsync = !rsync_on;
            let mut servers = RrdpServers::default();
            let primed = matches!(outcome, Outcome::UpdatedDelta | Outcome::NotModified | Outcome::FailedCurrent | Outcome::FailedCurrentRefreshed304 | Outcome::FailedCurrentRefreshedSameSerial | Outcome::FailedStale) && rrdp_on && notify;
            if primed {
                env.serve(&with_https_tal(&p1));
                servers.publish(&w1, &p1, &fake, &BTreeMap::new());
                fake.set(ta_url, Reply::ok(ta.to_vec()));
                let o = run_engine(&env.config, true, &LocalExceptions::empty());
                let ok = o.snapshot.as_ref().map(|s| observe(s).vrps.iter().any(|v| crate::props::hist::marker_version(v) == Some((1, 1)))).unwrap_or(false);
                if !ok { rep.inconclusive(format!("priming run did not produce version 1 of the child ({:?}, rsync {rsync_on})", policy)); continue }
            }
            if primed && matches!(outcome, Outcome::FailedCurrentRefreshed304 | Outcome::FailedCurrentRefreshedSameSerial) {
                // the copy's first best-before date passes, then a successful update finds nothing new (once answered
                // 304, once 200 with the same serial): the copy is current again from that moment
                crate::clock::set_offset(45);
                let mut f = BTreeMap::new();
                if outcome == Outcome::FailedCurrentRefreshedSameSerial { f.insert(1usize, Faults { no_etag: true, ..Default::default() }); }
                servers.publish(&w1, &p1, &fake, &f);
                fake.set(ta_url, Reply::ok(ta.to_vec()));
                let o = run_engine(&env.config, true, &LocalExceptions::empty());
                let ok = o.snapshot.as_ref().map(|s| observe(s).vrps.iter().any(|v| crate::props::hist::marker_version(v) == Some((1, 1)))).unwrap_or(false);
                if !ok { rep.inconclusive("refreshing run did not produce version 1 of the child"); crate::clock::set_offset(0); continue }
            }
            // test-run content: rsync serves v3, RRDP serves v2 (or still v1 for not-modified)
            env.serve(&with_https_tal(&p3));
            let mut faults = BTreeMap::new();
            match outcome {
                Outcome::UpdatedSnapshot | Outcome::UpdatedDelta => servers.publish(&w2, &p2, &fake, &faults),
                Outcome::NotModified => servers.publish(&w1, &p1, &fake, &faults),
                Outcome::FailedCurrent | Outcome::FailedCurrentRefreshed304 | Outcome::FailedCurrentRefreshedSameSerial | Outcome::FailedStale | Outcome::FailedNoCopy => {
                    faults.insert(1usize, match (if outcome == Outcome::FailedStale && _round % 2 == 0 { 3 } else { (case_no + rng.usize(2)) % 3 }) { 3 => Faults { notify_status: Some(*rng.pick(&[302u16, 301, 307])), ..Default::default() }, 0 => Faults { notify_status: Some(500), ..Default::default() }, 1 => Faults { notify_broken_xml: true, ..Default::default() }, _ => Faults { snapshot_status: Some(404), delta_fault: Some((0, crate::net::rrdp::DeltaFault::Status(404))), ..Default::default() } });
                    servers.publish(&w2, &p2, &fake, &faults);
                }
            }
            fake.set(ta_url, Reply::ok(ta.to_vec()));
            if outcome == Outcome::FailedStale { crate::clock::set_offset(120); }
            if matches!(outcome, Outcome::FailedCurrentRefreshed304 | Outcome::FailedCurrentRefreshedSameSerial) { crate::clock::set_offset(50); }
            fake.take_log();
            env.clear_rsync_log();
            crate::caplog::install(log::LevelFilter::Debug); crate::caplog::clear();
            ctx.begin_case(&json!({"policy": format!("{policy:?}"), "outcome": format!("{outcome:?}"), "rrdp": rrdp_on, "rsync": rsync_on, "notify": notify}));
            let out = run_engine(&env.config, true, &LocalExceptions::empty());
            crate::clock::set_offset(0);
            rep.eval();
            let Some(snap) = out.snapshot else { rep.inconclusive("run failed"); continue };
            // --- oracle: the property's table
            let consult_rrdp = notify && rrdp_on;
            let expected = if !consult_rrdp { if rsync_on { Transport::Rsync } else { Transport::NoFetch } } else {
                match outcome {
                    Outcome::UpdatedSnapshot | Outcome::UpdatedDelta | Outcome::NotModified => Transport::Rrdp,
                    Outcome::FailedNoCopy => if rsync_on && matches!(policy, FallbackPolicy::New | FallbackPolicy::Stale) { Transport::Rsync } else { Transport::NoFetch },
                    Outcome::FailedStale => if rsync_on && matches!(policy, FallbackPolicy::Stale) { Transport::Rsync } else { Transport::NoFetch },
                    Outcome::FailedCurrent | Outcome::FailedCurrentRefreshed304 | Outcome::FailedCurrentRefreshedSameSerial => Transport::NoFetch,
                }
            };
            let expected_version: Option<usize> = match expected {
                Transport::Rsync => Some(3),
                Transport::Rrdp => Some(if outcome == Outcome::NotModified { 1 } else { 2 }),
                Transport::NoFetch => if primed { Some(1) } else { None },
            };
            // --- observation
            let rsync_asked = env.rsync_log().iter().any(|l| l.get("module").and_then(|m| m.as_str()).map(|m| m.starts_with("r1.rpki.test/")).unwrap_or(false));
            let https_log = fake.take_log();
            let rrdp_asked = https_log.iter().any(|l| l.method == "GET" && l.host == "r1.rpki.test" && l.path.ends_with("notification.xml"));
            let versions: std::collections::BTreeSet<usize> = observe(&snap).vrps.iter().filter_map(crate::props::hist::marker_version).filter(|(ca, _)| *ca == 1).map(|(_, v)| v).collect();
            let root_ok = observe(&snap).vrps.iter().any(|v| crate::props::hist::marker_version(v) == Some((0, 0)));
            let cell = format!("{policy:?}|{outcome:?}|rrdp{}|rsync{}|notify{}", rrdp_on as u8, rsync_on as u8, notify as u8);
            let replay = json!({"cell": cell, "expected_transport": format!("{expected:?}"), "expected_child_version": expected_version, "observed_child_versions": versions,
                "rsync_asked_for_child": rsync_asked, "rrdp_asked_for_child": rrdp_asked, "world": w0});
            if !rrdp_on && !rsync_on { rep.class(format!("{cell}|no-collector")); if rsync_asked || rrdp_asked { rep.violation("C29/request-with-both-transports-disabled", "a transport was asked although both are disabled", replay); } continue }
            if !root_ok { rep.inconclusive(format!("root CA contributed nothing in cell {cell}; vrps {:?} log {:?} https log {:?}; rsync log {:?}", observe(&snap).vrps.iter().map(fmt_vrp).collect::<Vec<_>>(), crate::caplog::take(), https_log.iter().map(|l| format!("{} {}{}", l.method, l.host, l.path)).collect::<Vec<_>>(), env.rsync_log())); continue }
            let sig_cell = format!("{policy:?}/{outcome:?}/rrdp{}/rsync{}/notify{}", rrdp_on as u8, rsync_on as u8, notify as u8);
            if rsync_asked && expected != Transport::Rsync {
                rep.violation(format!("C29/unexpected-rsync/{sig_cell}"), format!("rsync was asked for the child's module in cell {cell} where the table says {expected:?}"), replay.clone());
            }
            if !rsync_asked && expected == Transport::Rsync {
                rep.violation(format!("C29/rsync-not-used/{sig_cell}"), format!("rsync was not asked for the child's module in cell {cell} where the table demands the fallback / rsync"), replay.clone());
            }
            if consult_rrdp && !rrdp_asked { rep.violation(format!("C29/rrdp-not-tried/{sig_cell}"), format!("RRDP was never asked for the child in cell {cell}"), replay.clone()); }
            if !consult_rrdp && rrdp_asked { rep.violation(format!("C29/rrdp-asked-though-not-applicable/{sig_cell}"), format!("RRDP was asked for the child in cell {cell}"), replay.clone()); }
            let got: Option<usize> = if versions.len() == 1 { versions.iter().next().cloned() } else { None };
            if versions.len() > 1 || got != expected_version {
                rep.violation(format!("C29/wrong-data-used/{sig_cell}"), format!("child's data version served: {:?}, expected {:?} (1 = stored copy, 2 = RRDP content, 3 = rsync content) in cell {cell}", versions, expected_version), replay.clone());
            }
            rep.class(format!("{cell}|{expected:?}"));
            rep.count(&format!("cells_{expected:?}"), 1);
            if rep.samples.len() < 2 && expected == Transport::Rsync && consult_rrdp { rep.sample(json!({"cell": cell, "expected": format!("{expected:?}"), "child_version_served": got, "rsync_asked": rsync_asked, "rrdp_asked": rrdp_asked})); }
        }}}}}
    }
    crate::clock::set_offset(0);
}

fn finish_c29(_t: crate::core::Tier, rep: &mut Report) {
    for c in ["cells_Rrdp", "cells_Rsync", "cells_NoFetch"] {
        if rep.counters.get(c).copied().unwrap_or(0) == 0 { rep.inconclusive(format!("no table cell with expected {c} was evaluated")); rep.count("inconclusive_fatal", 1); }
    }
}
