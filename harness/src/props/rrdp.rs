//! RRDP / HTTPS properties through the fake HTTPS proxy: C38 (object size
//! limit), C31 (dubious hosts), C29 (fallback policy table).

use std::collections::BTreeMap;
use std::time::Duration;
use serde_json::json;
use routinator::config::FallbackPolicy;
use routinator::slurm::LocalExceptions;
use crate::core::{Check, Ctx, Report, Rng};
use crate::net::https::{FakeHttps, Reply};
use crate::net::rrdp::Faults;
use crate::world::build::Builder;
use crate::world::oracle::*;
use crate::world::rrdpserve::RrdpServers;
use crate::world::run::{run_engine, Env};
use crate::world::spec::*;

fn now_ts() -> i64 { chrono::Utc::now().timestamp() }

//------------ C38 -----------------------------------------------------------

pub const C38: Check = Check {
    id: "C38",
    level: "fault_enumeration",
    rule: "two legs through the TLS-terminating fake. (a) trust anchor certificate over HTTPS of size s with max-object-size in \
           {disabled, s-1, s, s+1, default}, response with and without Content-Length (chunked): the TAL must contribute iff the \
           limit is disabled or s <= limit. (b) RRDP repository whose snapshot (and, in a second step, delta) carries an object of \
           size s with the limit in {disabled, s-1, s, s+1}: with fallback to rsync disabled the CA's payload is present iff the \
           object is within the limit. exhaustive over that product for generated worlds. distinct = (leg, limit class, \
           content-length?, outcome) classes",
    assumptions: &["rsync's own --max-size handling is outside this check (custom rsync-args are used)"],
    shards: |_| 8,
    watchdog: |t| Duration::from_secs(t.pick(600, 3600)),
    budget: |t| Duration::from_secs(t.pick(45, 600)),
    run: run_c38,
    crash_is_violation: false,
    finish: None,
};

fn single_ca_world(rng: &mut Rng, rrdp: bool) -> World {
    let mut w = gen_chain(rng, now_ts(), 0, 3);
    w.cas[0].rrdp = rrdp;
    w.cas[0].repo = 0;
    w
}

fn run_c38(ctx: &mut Ctx, rep: &mut Report) {
    let mut rng = ctx.rng("c38");
    let mut b = match Builder::new() { Ok(b) => b, Err(e) => { rep.inconclusive(e); return } };
    let fake = match FakeHttps::start() { Ok(f) => f, Err(e) => { rep.inconclusive(format!("fake https: {e}")); return } };
    let rounds = ctx.tier.pick(2usize, 12);
    let mut case_no = 0usize;
    for round in 0..rounds {
        // (a) TA over HTTPS
        let w = single_ca_world(&mut rng, false);
        let p = b.publish(&w);
        let ta = p.files.get(&w.ta_uri(0, 0)).unwrap().clone();
        let s = ta.len() as u64;
        for (lname, limit) in [("disabled", None), ("s-1", Some(s - 1)), ("s", Some(s)), ("s+1", Some(s + 1)), ("default", Some(20_000_000u64))] {
            for chunked in [false, true] {
                case_no += 1;
                if case_no % ctx.shards != ctx.shard { continue }
                if !ctx.time_left() { rep.note("time budget reached"); return }
                let mut env = Env::new(&ctx.scratch.join("env"));
                fake.clear();
                fake.configure(&mut env.config);
                env.config.max_object_size = limit;
                env.serve(&p);
                // TAL with an HTTPS URI only
                let tal = &p.tals[0].1;
                let key_part = tal.split("\n\n").nth(1).unwrap_or("");
                let url = "https://ta.rpki.test/ta/root.cer";
                std::fs::write(env.config.extra_tals_dir.as_ref().unwrap().join("chain.tal"), format!("{url}\n\n{key_part}")).unwrap();
                let mut reply = Reply::ok(ta.to_vec());
                reply.chunked = chunked;
                fake.set(url, reply);
                ctx.begin_case(&json!({"leg": "ta", "limit": lname, "chunked": chunked}));
                let out = run_engine(&env.config, true, &LocalExceptions::empty());
                rep.eval();
                let replay = json!({"leg": "https-ta", "ta_size": s, "limit": limit, "content_length": !chunked});
                let Some(snap) = out.snapshot else { rep.inconclusive("run failed"); continue };
                let got = !observe(&snap).vrps.is_empty() || !observe(&snap).aspas.is_empty() || !observe(&snap).keys.is_empty();
                let e = expect_fresh(&w, w.now, &Policy::default());
                let has_payload = !e.vrps.is_empty() || !e.aspas.is_empty() || !e.keys.is_empty();
                if !has_payload { rep.note("world without payload"); continue }
                let want = limit.map(|l| s <= l).unwrap_or(true);
                let fetched = fake.take_log().iter().any(|l| l.method == "GET" && l.path == "/ta/root.cer");
                if !fetched { rep.inconclusive("the fake never saw the TA request"); continue }
                if got != want {
                    let sig = if want { format!("C38/ta-within-limit-refused/limit-{lname}/{}", if chunked { "no-content-length" } else { "content-length" }) }
                        else { format!("C38/ta-above-limit-accepted/limit-{lname}/{}", if chunked { "no-content-length" } else { "content-length" }) };
                    rep.violation(sig, format!("HTTPS trust anchor of {s} bytes with max-object-size {:?} ({}): used = {got}, expected {want}", limit, if chunked { "no Content-Length" } else { "with Content-Length" }), replay);
                }
                rep.class(format!("ta|{lname}|cl{}|used{}", !chunked as u8, got as u8));
            }
        }
        // (b) RRDP objects
        let w = single_ca_world(&mut rng, true);
        let p = b.publish(&w);
        let biggest = p.files.iter().filter(|(u, _)| u.starts_with("rsync://r0.rpki.test/")).map(|(_, b)| b.len() as u64).max().unwrap_or(0);
        for (lname, limit) in [("disabled", None), ("s-1", Some(biggest - 1)), ("s", Some(biggest)), ("s+1", Some(biggest + 1))] {
            for via_delta in [false, true] {
                case_no += 1;
                if case_no % ctx.shards != ctx.shard { continue }
                if !ctx.time_left() { rep.note("time budget reached"); return }
                let mut env = Env::new(&ctx.scratch.join("env"));
                fake.clear();
                fake.configure(&mut env.config);
                env.config.max_object_size = limit;
                env.config.rrdp_fallback = FallbackPolicy::Never;
                env.config.disable_rsync = false;
                let mut servers = RrdpServers::default();
                // The TA itself comes via rsync (module ta0u0...), the CA's point only via RRDP.
                let mut p_rsync_only = p.clone();
                p_rsync_only.files.retain(|u, _| !u.starts_with("rsync://r0.rpki.test/"));
                env.serve(&p_rsync_only);
                let mut expect_present;
                if via_delta {
                    // first a small version (without the big objects), then the real one as a delta
                    let mut w0 = w.clone();
                    w0.cas[0].objects.clear(); w0.cas[0].mft_number -= 1; w0.cas[0].mft_this -= 600; w0.cas[0].crl_this -= 600; w0.cas[0].mft_ee_nb -= 600;
                    let p0 = b.publish(&w0);
                    let small_max = p0.files.iter().filter(|(u, _)| u.starts_with("rsync://r0.rpki.test/")).map(|(_, b)| b.len() as u64).max().unwrap_or(0);
                    if limit.map(|l| small_max > l).unwrap_or(false) { continue }
                    servers.publish(&w0, &p0, &fake, &BTreeMap::new());
                    let _ = run_engine(&env.config, true, &LocalExceptions::empty());
                    servers.publish(&w, &p, &fake, &BTreeMap::new());
                    expect_present = limit.map(|l| biggest <= l).unwrap_or(true);
                } else {
                    servers.publish(&w, &p, &fake, &BTreeMap::new());
                    expect_present = limit.map(|l| biggest <= l).unwrap_or(true);
                }
                fake.take_log();
                ctx.begin_case(&json!({"leg": "rrdp", "limit": lname, "via_delta": via_delta}));
                let out = run_engine(&env.config, true, &LocalExceptions::empty());
                rep.eval();
                let replay = json!({"leg": "rrdp-object", "biggest_object": biggest, "limit": limit, "via_delta": via_delta});
                let Some(snap) = out.snapshot else { rep.inconclusive("run failed"); continue };
                let log = fake.take_log();
                if !log.iter().any(|l| l.path.ends_with("notification.xml")) { rep.inconclusive("the fake never saw the notification request"); continue }
                let e = expect_fresh(&w, w.now, &Policy::default());
                if e.vrps.is_empty() && e.aspas.is_empty() && e.keys.is_empty() { expect_present = false; }
                let o = observe(&snap);
                let present = !o.vrps.is_empty() || !o.aspas.is_empty() || !o.keys.is_empty();
                if present != expect_present && !(e.vrps.is_empty() && e.aspas.is_empty() && e.keys.is_empty()) {
                    let sig = if expect_present { format!("C38/rrdp-object-within-limit-refused/limit-{lname}") } else { format!("C38/rrdp-object-above-limit-accepted/limit-{lname}") };
                    rep.violation(sig, format!("RRDP {} with a {biggest}-byte object and max-object-size {:?}: payload present = {present}, expected {expect_present}", if via_delta { "delta" } else { "snapshot" }, limit), replay);
                }
                rep.class(format!("rrdp|{lname}|delta{}|present{}", via_delta as u8, present as u8));
            }
        }
        let _ = round;
    }
    rep.sample(json!({"legs": ["https trust anchor", "rrdp snapshot object", "rrdp delta object"], "limits": ["disabled", "s-1", "s", "s+1", "default"]}));
}
