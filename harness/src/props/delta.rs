//! C11 (deltas describe exactly the change) and C12 (merged = direct).

use std::time::Duration;
use serde_json::json;
use routinator::payload::PayloadDelta;
use rpki::rtr::Serial;
use crate::core::{Check, Ctx, Report, Tier};
use crate::pgen::{fmt_action, Model};

pub const C11: Check = Check {
    id: "C11",
    level: "exploration",
    rule: "pairs of data sets drawn from a 48-origin/54-router-key/8-customer universe \
           (collisions frequent; empty sets, equal sets, ASPA-provider-only differences forced); \
           oracle = sequential set/map model: None iff equal, action list equals model \
           difference in documented order, counts equal counted actions, applying actions to old \
           (as a router would, rejecting inapplicable actions) yields new. A case is non-trivial \
           if the two sets differ; distinct = distinct (types-changed, announce>0, withdraw>0, \
           aspa-update-present, old-empty, new-empty) classes",
    assumptions: &["snapshots are built with the public PayloadSnapshot::new from duplicate-free item lists, \
                    as into_snapshot produces them"],
    shards: |_| 16,
    watchdog: |t| Duration::from_secs(t.pick(300, 3600)),
    budget: |t| Duration::from_secs(t.pick(25, 300)),
    run: run_c11,
    crash_is_violation: false,
    finish: None,
};

fn class_of(old: &Model, new: &Model) -> String {
    let ann = new.origins.difference(&old.origins).count() + new.keys.difference(&old.keys).count();
    let wd = old.origins.difference(&new.origins).count() + old.keys.difference(&new.keys).count();
    let mut upd = 0; let mut aann = 0; let mut awd = 0;
    for (c, p) in &new.aspas {
        match old.aspas.get(c) { None => aann += 1, Some(q) if q != p => upd += 1, _ => {} }
    }
    for c in old.aspas.keys() { if !new.aspas.contains_key(c) { awd += 1 } }
    format!("o{}k{}a{}|ann{}|wd{}|upd{}|aann{}|awd{}|oe{}|ne{}",
        (old.origins != new.origins) as u8, (old.keys != new.keys) as u8, (old.aspas != new.aspas) as u8,
        (ann > 0) as u8, (wd > 0) as u8, (upd > 0) as u8, (aann > 0) as u8, (awd > 0) as u8,
        (old.len() == 0) as u8, (new.len() == 0) as u8)
}

pub fn check_pair(old: &Model, new: &Model, serial: u32, rep: &mut Report) {
    let os = old.snapshot();
    let ns = new.snapshot();
    let delta = PayloadDelta::construct(&os, &ns, Serial::from(serial));
    let replay = json!({"old": old.to_json(), "new": new.to_json(), "serial": serial});
    rep.eval();
    match delta {
        None => {
            if old != new {
                rep.violation("C11/none-for-different-sets",
                    "construct returned None although the data sets differ", replay);
            }
        }
        Some(delta) => {
            if old == new {
                rep.violation("C11/some-for-equal-sets",
                    "construct returned a change set for equal data sets", replay);
                return
            }
            rep.class(class_of(old, new));
            if delta.serial() != Serial::from(serial).add(1) {
                rep.violation("C11/serial", format!("delta serial {} != old serial {} + 1", delta.serial(), serial), replay.clone());
            }
            let got: Vec<String> = delta.actions().map(|(p, a)| fmt_action(p, a)).collect();
            let want = old.expected_actions(new);
            if got != want {
                rep.violation("C11/actions-differ-from-model",
                    format!("actions {:?} differ from model difference {:?}", got, want), replay.clone());
            }
            let ann = delta.actions().filter(|x| x.1.is_announce()).count();
            let wd = delta.actions().filter(|x| x.1.is_withdraw()).count();
            if ann != delta.announce_len() || wd != delta.withdraw_len() {
                rep.violation("C11/counts",
                    format!("announce_len/withdraw_len {}/{} but {} / {} actions listed",
                        delta.announce_len(), delta.withdraw_len(), ann, wd), replay.clone());
            }
            let mut m = old.clone();
            match m.apply_delta(&delta) {
                Err(e) => rep.violation("C11/inapplicable-action", e, replay.clone()),
                Ok(()) => if &m != new {
                    rep.violation("C11/apply-mismatch",
                        "applying the change set to the old data set does not give the new one", replay.clone());
                }
            }
            if delta.is_empty() {
                rep.violation("C11/empty-some", "construct returned an empty change set as Some", replay);
            }
        }
    }
}

fn gen_pair(rng: &mut crate::core::Rng) -> (Model, Model) {
    let old = match rng.usize(8) { 0 => Model::default(), _ => Model::rand(rng) };
    let new = match rng.usize(10) {
        0 => Model::default(),
        1 => old.clone(),
        2 | 3 | 4 | 5 => old.mutate(rng),
        6 => { // ASPA-providers-only difference
            let mut n = old.clone();
            for (_, p) in n.aspas.iter_mut() { if rng.bool() { *p = crate::pgen::providers(rng.u32() % 64) } }
            n
        }
        _ => Model::rand(rng),
    };
    (old, new)
}

fn run_c11(ctx: &mut Ctx, rep: &mut Report) {
    if let Some(r) = ctx.replay.clone() {
        rep.note(format!("replay not re-executable from formatted items; re-run with seed; case: {}", r));
    }
    let mut rng = ctx.rng("pairs");
    let n = ctx.tier.pick(12_000u64, 320_000);
    for i in 0..n {
        if (i % 256 == 0 || cfg!(miri)) && !ctx.time_left() { rep.note("time budget reached"); break }
        let (old, new) = gen_pair(&mut rng);
        let serial = match rng.usize(4) { 0 => 0, 1 => u32::MAX, 2 => 0x7fff_ffff, _ => rng.u32() };
        if rep.samples.is_empty() && old != new && old.len() > 0 {
            rep.sample(json!({"old": old.to_json(), "new": new.to_json(), "serial": serial}));
        }
        check_pair(&old, &new, serial, rep);
    }
}

//------------ C12 -----------------------------------------------------------

pub const C12: Check = Check {
    id: "C12",
    level: "exploration",
    rule: "sequences of 2..12 data sets from the same small universe, biased to add-then-remove, \
           remove-then-re-add and ASPA change-and-change-back; oracle: fold(merge) of consecutive \
           change sets lists the same actions in the same order as the direct change set, its counts \
           match, and a model router applying step by step ends with the same table as one applying \
           the merged change set. Non-trivial = at least two non-empty steps; distinct = distinct \
           (steps, cancels-present, aspa-flipflop, direct-empty) classes",
    assumptions: &["each step's change set is produced by PayloadDelta::construct on consecutive data sets"],
    shards: |_| 16,
    watchdog: |t| Duration::from_secs(t.pick(300, 3600)),
    budget: |t| Duration::from_secs(t.pick(25, 300)),
    run: run_c12,
    crash_is_violation: false,
    finish: None,
};

pub fn check_sequence(seq: &[Model], rep: &mut Report) {
    rep.eval();
    let replay = json!({"sequence": seq.iter().map(|m| m.to_json()).collect::<Vec<_>>()});
    let snaps: Vec<_> = seq.iter().map(|m| m.snapshot()).collect();
    let mut steps = Vec::new();
    for i in 0..seq.len() - 1 {
        if let Some(d) = PayloadDelta::construct(&snaps[i], &snaps[i + 1], Serial::from(i as u32)) {
            steps.push(d);
        }
    }
    let direct = PayloadDelta::construct(&snaps[0], &snaps[seq.len() - 1], Serial::from(0))
        .unwrap_or_else(|| PayloadDelta::empty(Serial::from(0)));
    if steps.is_empty() {
        if !direct.is_empty() {
            rep.violation("C12/no-steps-but-direct", "no step changed anything but direct delta is non-empty", replay);
        }
        return
    }
    let last_serial = steps.last().unwrap().serial();
    let mut it = steps.iter();
    let mut merged = it.next().unwrap().clone();
    for d in it { merged = merged.merge(d); }
    let m: Vec<String> = merged.actions().map(|(p, a)| fmt_action(p, a)).collect();
    let d: Vec<String> = direct.actions().map(|(p, a)| fmt_action(p, a)).collect();
    if steps.len() >= 2 {
        let cancels = steps.iter().map(|s| s.announce_len() + s.withdraw_len()).sum::<usize>() > m.len();
        let mut flip = false;
        for c in seq[0].aspas.keys() {
            let vals: Vec<_> = seq.iter().map(|s| s.aspas.get(c)).collect();
            if vals.first() == vals.last() && vals.iter().any(|v| v != &vals[0]) { flip = true }
        }
        rep.class(format!("steps{}|cancel{}|flip{}|empty{}", steps.len().min(6), cancels as u8, flip as u8, d.is_empty() as u8));
    }
    if m != d {
        rep.violation("C12/merged-differs-from-direct",
            format!("merged actions {:?} differ from direct actions {:?}", m, d), replay.clone());
    }
    if merged.serial() != last_serial {
        rep.violation("C12/serial", format!("merged serial {} is not the last step's serial {}", merged.serial(), last_serial), replay.clone());
    }
    let ann = merged.actions().filter(|x| x.1.is_announce()).count();
    let wd = merged.actions().filter(|x| x.1.is_withdraw()).count();
    if ann != merged.announce_len() || wd != merged.withdraw_len() {
        rep.violation("C12/counts", format!("merged counts {}/{} but {} / {} actions",
            merged.announce_len(), merged.withdraw_len(), ann, wd), replay.clone());
    }
    // Router applying step by step vs. router applying merged.
    let mut r1 = seq[0].clone();
    for s in &steps {
        if let Err(e) = r1.apply_delta(s) {
            rep.violation("C12/step-inapplicable", e, replay.clone()); return
        }
    }
    let mut r2 = seq[0].clone();
    match r2.apply_delta(&merged) {
        Err(e) => rep.violation("C12/merged-inapplicable", e, replay.clone()),
        Ok(()) => if r1 != r2 || &r2 != seq.last().unwrap() {
            rep.violation("C12/router-tables-differ",
                "router applying the merged change set ends with a different table", replay);
        }
    }
}

fn run_c12(ctx: &mut Ctx, rep: &mut Report) {
    let mut rng = ctx.rng("seqs");
    let n = ctx.tier.pick(4_000u64, 100_000);
    for i in 0..n {
        if (i % 128 == 0 || cfg!(miri)) && !ctx.time_left() { rep.note("time budget reached"); break }
        let len = 2 + rng.usize(11);
        let mut seq = vec![match rng.usize(6) { 0 => Model::default(), _ => Model::rand(&mut rng) }];
        while seq.len() < len {
            let prev = seq.last().unwrap();
            let next = match rng.usize(10) {
                0 => seq[rng.usize(seq.len())].clone(),       // go back to an earlier state
                1 => Model::default(),
                2 => prev.clone(),
                3 => Model::rand(&mut rng),
                _ => prev.mutate(&mut rng),
            };
            seq.push(next);
        }
        if rep.samples.is_empty() {
            rep.sample(json!({"sequence": seq.iter().map(|m| m.to_json()).collect::<Vec<_>>()}));
        }
        check_sequence(&seq, rep);
    }
}

#[allow(dead_code)]
fn _tier(_: Tier) {}
