//! C35: the printed configuration reads back identically.

use std::time::Duration;
use serde_json::json;
use routinator::config::Config;
use crate::core::{Check, Ctx, Report, Rng};

pub const C35: Check = Check {
    id: "C35",
    level: "exploration",
    rule: "argument vectors over all global and server options within the ranges the command line parser accepts (numbers \
           at 0, 1, 65535, 65536, 2^32-1, 2^63-1, 2^63, 2^64-1; empty/non-empty lists; optional values set/unset; policies; \
           addresses; paths) -> Config::from_arg_matches + apply_server_arg_matches -> Display (what 'routinator config' \
           prints) -> file -> read with -c through the same entry point -> Config equality field by field (config file \
           path normalised). The one-shot action flag --fresh is not configuration and is never generated. A violation's \
           signature names the cause class: the key the reader rejects, or the fields that differ together with the value \
           class that triggers it. distinct = (fields set, numeric class) classes",
    assumptions: &["HOME points to an empty scratch directory so that no user config file is picked up",
                   "--fresh (delete the cache now) is an action, not part of the printed configuration"],
    shards: |_| 16,
    watchdog: |t| Duration::from_secs(t.pick(300, 3600)),
    budget: |t| Duration::from_secs(t.pick(25, 300)),
    run: run_c35,
    crash_is_violation: false,
    finish: None,
};

fn num(rng: &mut Rng) -> (u64, &'static str) {
    match rng.usize(12) {
        0 => (0, "0"), 1 => (1, "1"), 2 => (600, "typical"), 3 => (65535, "65535"), 4 => (65536, "65536"),
        5 => (u32::MAX as u64, "2^32-1"), 6 => (i64::MAX as u64, "2^63-1"), 7 => (i64::MAX as u64 + 1, "2^63"),
        8 => (u64::MAX, "2^64-1"), 9 => (rng.u64() % 100000, "typical"), _ => (3600, "typical"),
    }
}

struct Gen { args: Vec<String>, set: Vec<(String, &'static str)> }

fn gen_args(rng: &mut Rng, dir: &std::path::Path) -> Gen {
    let mut g = Gen { args: vec!["routinator".into()], set: Vec::new() };
    let mut flag = |g: &mut Gen, rng: &mut Rng, name: &str| { if rng.chance(1, 4) { g.args.push(format!("--{name}")); g.set.push((name.into(), "flag")); } };
    let numopt = |g: &mut Gen, rng: &mut Rng, name: &str| { if rng.chance(1, 4) { let (v, c) = num(rng); g.args.push(format!("--{name}")); g.args.push(v.to_string()); g.set.push((name.into(), c)); } };
    let policy = |g: &mut Gen, rng: &mut Rng, name: &str| { if rng.chance(1, 4) { g.args.push(format!("--{name}")); g.args.push(rng.pick(&["reject", "warn", "accept"]).to_string()); g.set.push((name.into(), "policy")); } };
    g.args.push("--repository-dir".into()); g.args.push(dir.join("cache").display().to_string());
    flag(&mut g, rng, "no-rir-tals");
    if rng.chance(1, 5) { for t in ["nlnetlabs-testbed", "apnic-testbed"].iter().take(1 + rng.usize(2)) { g.args.push("--tal".into()); g.args.push(t.to_string()); } g.set.push(("tal".into(), "list")); }
    if rng.chance(1, 4) { g.args.push("--extra-tals-dir".into()); g.args.push("tals dir".into()); g.set.push(("extra-tals-dir".into(), "path")); }
    if rng.chance(1, 4) { for i in 0..1 + rng.usize(3) { g.args.push("--exceptions".into()); g.args.push(format!("ex{i}.json")); } g.set.push(("exceptions".into(), "list")); }
    flag(&mut g, rng, "strict");
    policy(&mut g, rng, "stale"); policy(&mut g, rng, "unsafe-vrps"); policy(&mut g, rng, "unknown-objects");
    if rng.chance(1, 4) { let v = *rng.pick(&[0u8, 1, 24, 32]); g.args.push("--limit-v4-len".into()); g.args.push(v.to_string()); g.set.push(("limit-v4-len".into(), "edge")); }
    if rng.chance(1, 4) { let v = *rng.pick(&[0u8, 48, 64, 128]); g.args.push("--limit-v6-len".into()); g.args.push(v.to_string()); g.set.push(("limit-v6-len".into(), "edge")); }
    flag(&mut g, rng, "allow-dubious-hosts"); flag(&mut g, rng, "disable-rsync");
    if rng.chance(1, 4) { g.args.push("--rsync-command".into()); g.args.push(rng.pick(&["rsync", "/usr/bin/my rsync", "a\"b\\c"]).to_string()); g.set.push(("rsync-command".into(), "string")); }
    numopt(&mut g, rng, "rsync-timeout");
    flag(&mut g, rng, "disable-rrdp");
    numopt(&mut g, rng, "rrdp-max-delta-count"); numopt(&mut g, rng, "rrdp-max-delta-list-len");
    if rng.chance(1, 4) { g.args.push("--rrdp-fallback".into()); g.args.push(rng.pick(&["never", "stale", "new"]).to_string()); g.set.push(("rrdp-fallback".into(), "policy")); }
    numopt(&mut g, rng, "rrdp-fallback-time"); numopt(&mut g, rng, "rrdp-timeout"); numopt(&mut g, rng, "rrdp-read-timeout");
    numopt(&mut g, rng, "rrdp-connect-timeout"); numopt(&mut g, rng, "rrdp-tcp-keepalive");
    if rng.chance(1, 5) { g.args.push("--rrdp-local-addr".into()); g.args.push(rng.pick(&["127.0.0.1", "::1", "2001:db8::1"]).to_string()); g.set.push(("rrdp-local-addr".into(), "addr")); }
    if rng.chance(1, 5) { g.args.push("--rrdp-root-cert".into()); g.args.push("root.pem".into()); g.set.push(("rrdp-root-cert".into(), "list")); }
    if rng.chance(1, 5) { g.args.push("--rrdp-proxy".into()); g.args.push("socks5://127.0.0.1:9000".into()); g.set.push(("rrdp-proxy".into(), "list")); }
    numopt(&mut g, rng, "max-object-size"); numopt(&mut g, rng, "max-ca-depth");
    flag(&mut g, rng, "enable-bgpsec"); flag(&mut g, rng, "enable-aspa"); flag(&mut g, rng, "dirty-repository");
    numopt(&mut g, rng, "validation-threads");
    match rng.usize(6) { 0 => g.args.push("-v".into()), 1 => g.args.push("-vv".into()), 2 => g.args.push("-q".into()), 3 => g.args.push("-qq".into()), _ => {} }
    match rng.usize(6) {
        0 => { g.args.push("--syslog".into()); g.set.push(("syslog".into(), "flag")); if rng.bool() { g.args.push("--syslog-facility".into()); g.args.push(rng.pick(&["daemon", "local3", "user"]).to_string()); } }
        1 => { g.args.push("--logfile".into()); g.args.push(rng.pick(&["-", "my.log"]).to_string()); g.set.push(("logfile".into(), "path")); }
        _ => {}
    }
    flag(&mut g, rng, "log-repository-issues");
    // server args
    numopt(&mut g, rng, "refresh"); numopt(&mut g, rng, "min-refresh"); numopt(&mut g, rng, "retry"); numopt(&mut g, rng, "expire");
    numopt(&mut g, rng, "history");
    for (opt, key) in [("rtr", "rtr"), ("rtr-tls", "rtr-tls"), ("http", "http"), ("http-tls", "http-tls")] {
        if rng.chance(1, 5) { for a in ["127.0.0.1:3323", "[::1]:8323"].iter().take(1 + rng.usize(2)) { g.args.push(format!("--{opt}")); g.args.push(a.to_string()); } g.set.push((key.into(), "list")); }
    }
    flag(&mut g, rng, "systemd-listen");
    numopt(&mut g, rng, "rtr-tcp-keepalive");
    flag(&mut g, rng, "rtr-client-metrics");
    for k in ["rtr-tls-key", "rtr-tls-cert", "http-tls-key", "http-tls-cert", "pid-file", "working-dir", "chroot"] {
        if rng.chance(1, 6) { g.args.push(format!("--{k}")); g.args.push(format!("{k}.x")); g.set.push((k.into(), "path")); }
    }
    for k in ["user", "group"] { if rng.chance(1, 6) { g.args.push(format!("--{k}")); g.args.push("nobody".into()); g.set.push((k.into(), "string")); } }
    g
}

fn parse(args: &[String], cur: &std::path::Path) -> Result<Config, String> {
    let app = Config::server_args(Config::config_args(clap::Command::new("routinator")));
    let m = app.try_get_matches_from(args).map_err(|e| format!("clap: {}", e.kind()))?;
    crate::caplog::clear();
    let mut c = Config::from_arg_matches(&m, cur).map_err(|_| {
        let l = crate::caplog::take(); format!("rejected: {}", l.iter().map(|x| x.1.clone()).collect::<Vec<_>>().join(" | "))
    })?;
    c.apply_server_arg_matches(&m, cur).map_err(|_| "server args rejected".to_string())?;
    Ok(c)
}

fn numeric_value(c: &Config, field: &str) -> Option<u128> {
    let d = |x: Option<Duration>| x.map(|d| d.as_secs() as u128);
    match field {
        "rsync_timeout" => d(c.rsync_timeout), "rrdp_fallback_time" => Some(c.rrdp_fallback_time.as_secs() as u128),
        "rrdp_max_delta_count" => Some(c.rrdp_max_delta_count as u128), "rrdp_max_delta_list_len" => Some(c.rrdp_max_delta_list_len as u128),
        "rrdp_timeout" => d(c.rrdp_timeout), "rrdp_read_timeout" => d(c.rrdp_read_timeout), "rrdp_connect_timeout" => d(c.rrdp_connect_timeout),
        "rrdp_tcp_keepalive" => d(c.rrdp_tcp_keepalive), "max_object_size" => c.max_object_size.map(|v| v as u128),
        "max_ca_depth" => Some(c.max_ca_depth as u128), "validation_threads" => Some(c.validation_threads as u128),
        "refresh" => Some(c.refresh.as_secs() as u128), "min_refresh" => d(c.min_refresh), "retry" => Some(c.retry.as_secs() as u128),
        "expire" => Some(c.expire.as_secs() as u128), "history_size" => Some(c.history_size as u128), "rtr_tcp_keepalive" => d(c.rtr_tcp_keepalive),
        _ => None,
    }
}

macro_rules! diff_fields {
    ($a:expr, $b:expr, $($f:ident),*) => {{
        let mut d: Vec<&'static str> = Vec::new();
        $( if $a.$f != $b.$f { d.push(stringify!($f)); } )*
        d
    }}
}

fn run_c35(ctx: &mut Ctx, rep: &mut Report) {
    crate::caplog::install(log::LevelFilter::Warn);
    std::env::set_var("HOME", ctx.scratch.join("home"));
    let _ = std::fs::create_dir_all(ctx.scratch.join("home"));
    let mut rng = ctx.rng("c35");
    let n = ctx.tier.pick(2500u64, 60_000);
    for i in 0..n {
        if i % 64 == 0 && !ctx.time_left() { rep.note("time budget reached"); break }
        let g = gen_args(&mut rng, &ctx.scratch);
        let first = match parse(&g.args, &ctx.scratch) {
            Ok(c) => c,
            Err(e) => { if e.starts_with("clap") { rep.count("argument_vectors_rejected_by_cli", 1); } else { rep.note(format!("first parse: {e}")); } continue }
        };
        rep.eval();
        let printed = format!("{}", first);
        let path = ctx.scratch.join("printed.conf");
        std::fs::write(&path, &printed).unwrap();
        let second_args = vec!["routinator".to_string(), "-c".into(), path.display().to_string()];
        let replay = json!({"args": g.args, "printed": printed});
        let set_names: Vec<&str> = g.set.iter().map(|s| s.0.as_str()).collect();
        match parse(&second_args, &ctx.scratch) {
            Err(e) => {
                // Which key? The error text names it.
                let key = e.split('\'').nth(1).unwrap_or("?").to_string();
                rep.violation(format!("C35/printed-file-rejected/{key}"), format!("the printed configuration is not accepted as a config file: {e}"), replay);
            }
            Ok(mut second) => {
                second.config_file = first.config_file.clone();
                if second != first {
                    let d = diff_fields!(first, second, cache_dir, no_rir_tals, bundled_tals, extra_tals_dir, exceptions, strict, stale, unsafe_vrps,
                        unknown_objects, limit_v4_len, limit_v6_len, allow_dubious_hosts, fresh, disable_rsync, rsync_command, rsync_args, rsync_timeout,
                        disable_rrdp, rrdp_fallback, rrdp_fallback_time, rrdp_max_delta_count, rrdp_max_delta_list_len, rrdp_timeout, rrdp_read_timeout,
                        rrdp_connect_timeout, rrdp_tcp_keepalive, rrdp_local_addr, rrdp_root_certs, rrdp_proxies, rrdp_user_agent, max_object_size,
                        max_ca_depth, enable_bgpsec, enable_aspa, dirty_repository, validation_threads, refresh, min_refresh, retry, expire, history_size,
                        rtr_listen, rtr_tls_listen, http_listen, http_tls_listen, systemd_listen, rtr_tcp_keepalive, rtr_client_metrics, rtr_tls_key,
                        rtr_tls_cert, http_tls_key, http_tls_cert, log_level, log_target, log_repository_issues, pid_file, working_dir, chroot, user, group, tal_labels);
                    // One violation per differing field so that signatures name single causes.
                    for f in &d {
                        let big = numeric_value(&first, f).map(|v| v > i64::MAX as u128).unwrap_or(false);
                        if big {
                            rep.violation("C35/numeric-value-above-i64-max", format!(
                                "field {f} = {} (accepted on the command line) is printed as 9223372036854775807 and reads back as that", numeric_value(&first, f).unwrap()), replay.clone());
                        }
                        else {
                            rep.violation(format!("C35/field-differs/{f}"), format!("field {f} differs after print + read back (options set: {:?})", set_names), replay.clone());
                        }
                    }
                    if d.is_empty() { rep.violation("C35/config-differs/unknown-field", "configs differ in a field the harness does not list", replay); }
                }
            }
        }
        let mut classes: Vec<&str> = g.set.iter().map(|s| s.1).collect(); classes.sort(); classes.dedup();
        rep.class(format!("n{}|{}", g.set.len().min(12), classes.join("+")));
        if rep.samples.is_empty() { rep.sample(json!({"args": g.args})); }
    }
}
