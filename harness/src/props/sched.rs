//! C33 (a failed run never changes the served data) and C34 (next-run
//! scheduling respects refresh and min-refresh).

use std::time::{Duration, Instant, SystemTime};
use serde_json::{json, Value};
use rpki::repository::x509::Time;
use rpki::rtr::state::State;
use crate::core::{Check, Ctx, Report};
use crate::hooks::Hooks;
use crate::pgen::Model;
use crate::props::server::parse_json_origins;
use crate::srv::{http_get, http_request, rtr_query, TestServer};

pub const C33: Check = Check {
    id: "C33",
    level: "fault_enumeration",
    rule: "in-process server stepping with histories of successful and failed runs (forced retryable / fatal outcome at the \
           run's entry via fault hook; on half of the shards also natural mid-run failures: the real engine inside the server step hits a directory where a stored point file is expected while the repositories offer new data). Around every failed \
           run the harness records at the real listeners: RTR reset answer (state + full set), RTR serial-query answer, \
           GET /json body + ETag + Last-Modified, /json-delta reset and delta documents, the RTR and /json-delta answers for every serial the history retains a change set for (and one older), /json-delta/notify of a parked \
           subscriber. Oracle: all of them are byte-/set-identical before and after the failed run, the subscriber did \
           not fire, and serial/session are unchanged. distinct = (failure kind, position in history, data-changed-by-\
           the-would-be-run) classes",
    assumptions: &["generatedTime in JSON bodies is derived from the creation time, which must not move either"],
    shards: |_| 8,
    watchdog: |t| Duration::from_secs(t.pick(300, 3600)),
    budget: |t| Duration::from_secs(t.pick(25, 300)),
    run: run_c33,
    crash_is_violation: false,
    finish: None,
};

#[derive(Debug, PartialEq, Clone)]
struct Served {
    rtr_state: Option<(u16, u32)>,
    rtr_set: Option<String>,
    rtr_delta: Option<String>,
    json_body: Vec<u8>,
    etag: Option<String>,
    last_modified: Option<String>,
    delta_reset: Vec<u8>,
    delta_doc: Vec<u8>,
    status: Value,
    /// answers for every retained serial (RTR serial query and /json-delta)
    window: Vec<String>,
}

fn observe(srv: &TestServer, crt: &tokio::runtime::Runtime, from: u32) -> Result<Served, String> {
    let (session, rtr_session) = { let h = srv.history.read(); (h.session(), h.rtr_session()) };
    let reset = rtr_query(crt, srv.rtr_addr, None, Duration::from_secs(10))?.ok_or("rtr reset refused")?;
    let fmt = |items: &Vec<(rpki::rtr::payload::Action, rpki::rtr::payload::Payload)>| {
        let mut v: Vec<String> = items.iter().map(|(a, p)| crate::pgen::fmt_action(p.as_ref(), *a)).collect();
        v.sort(); v.join(";")
    };
    let serial = rtr_query(crt, srv.rtr_addr, Some(State::from_parts(rtr_session, from.into())), Duration::from_secs(10))?;
    // every serial the history still holds a change set for (and one older) must keep getting the same answer
    let retained = srv.history.verif_retained() as u32;
    let cur: u32 = srv.history.read().serial().into();
    let mut window: Vec<String> = Vec::new();
    for back in 1..=retained + 1 {
        let f = cur.wrapping_sub(back);
        let a = rtr_query(crt, srv.rtr_addr, Some(State::from_parts(rtr_session, f.into())), Duration::from_secs(10))?;
        let d = http_get(srv.http_addr, &format!("/json-delta?session={session}&serial={f}"))?;
        window.push(format!("{f}: rtr {} | http {}", a.map(|a| format!("{}:{}:{}", a.reset, a.state.serial(), fmt(&a.items))).unwrap_or_else(|| "refused".into()), String::from_utf8_lossy(&d.body)));
    }
    let j = http_get(srv.http_addr, "/json")?;
    let d1 = http_get(srv.http_addr, "/json-delta")?;
    let d2 = http_get(srv.http_addr, &format!("/json-delta?session={session}&serial={from}"))?;
    let st = http_get(srv.http_addr, "/api/v1/status")?;
    let status: Value = serde_json::from_slice(&st.body).unwrap_or(Value::Null);
    // Only the fields of the status document that describe the served data.
    let status = json!({"serial": status.get("serial"), "lastUpdateDone": status.get("lastUpdateDone")});
    Ok(Served {
        rtr_state: Some((reset.state.session(), reset.state.serial().into())),
        rtr_set: Some(fmt(&reset.items)),
        rtr_delta: serial.map(|a| format!("{}:{}:{}", a.reset, a.state.serial(), fmt(&a.items))),
        json_body: j.body.clone(), etag: j.header("etag").map(String::from), last_modified: j.header("last-modified").map(String::from),
        delta_reset: d1.body, delta_doc: d2.body, status, window,
    })
}

/// Natural mid-run failure: the real engine runs inside the server step and hits a fatal I/O error (a directory where
/// a stored publication point file is expected) while the repositories offer changed data.
fn natural_failure_leg(ctx: &mut Ctx, rep: &mut Report) {
    use crate::world::build::Builder;
    use crate::world::run::Env;
    use crate::world::spec::{generate, GenParams};
    let mut rng = ctx.rng("c33-natural");
    let mut b = match Builder::new() { Ok(b) => b, Err(e) => { rep.inconclusive(e); return } };
    let crt = tokio::runtime::Builder::new_current_thread().enable_all().build().unwrap();
    let n = ctx.tier.pick(3usize, 40);
    for i in 0..n {
        if !ctx.time_left() { break }
        let params = GenParams { tals: 1, max_cas: 3 + rng.usize(3), max_depth: 2, max_objects: 2 + rng.usize(3), repos: 2, ..GenParams::default() };
        let w0 = generate(&mut rng, chrono::Utc::now().timestamp(), &params);
        let w1 = crate::props::hist::evolve(&w0, 0, &mut rng, crate::props::hist::Emphasis::Ordering);
        let mut env = Env::new(&ctx.scratch.join("env-natural"));
        env.config.validation_threads = 1;
        env.config.history_size = 5;
        env.serve(&b.publish(&w1));
        let mut srv = match TestServer::start_with_config(env.config.clone(), true) { Ok(s) => s, Err(e) => { rep.inconclusive(format!("server start: {e}")); return } };
        if srv.process_once(false).is_err() { rep.inconclusive("first real run failed"); continue }
        let serial_now = u32::from(srv.history.read().serial());
        let before = match observe(&srv, &crt, serial_now) { Ok(s) => s, Err(e) => { rep.inconclusive(format!("observe: {e}")); continue } };
        // the repositories move on (every CA gets a new version) ...
        let mut w2 = w1.clone();
        for k in 1..3 { w2 = crate::props::hist::evolve(&w2, k, &mut rng, crate::props::hist::Emphasis::Ordering); }
        env.serve(&b.publish(&w2));
        // ... and the store is damaged: a directory where a stored point file is expected
        let cache = env.dir.join("cache");
        let mut points: Vec<std::path::PathBuf> = Vec::new();
        fn rec(p: &std::path::Path, out: &mut Vec<std::path::PathBuf>) { if let Ok(rd) = std::fs::read_dir(p) { for e in rd.flatten() { let p = e.path(); if p.is_dir() { rec(&p, out) } else if p.extension().map(|x| x == "mft").unwrap_or(false) { out.push(p) } } } }
        rec(&cache.join("stored"), &mut points);
        points.sort();
        if points.len() < 2 { rep.inconclusive("no stored points to damage"); continue }
        // not the first one visited (the trust anchor's), so that part of the tree is processed before the error
        let victim = points[1 + rng.usize(points.len() - 1)].clone();
        let aside = cache.join("aside.bin");
        if std::fs::rename(&victim, &aside).is_err() || std::fs::create_dir(&victim).is_err() { rep.inconclusive("could not damage the store"); continue }
        crate::caplog::install(log::LevelFilter::Warn); crate::caplog::clear();
        ctx.begin_case(&json!({"leg": "natural-failure", "case": i}));
        let res = srv.process_once(false);
        let hit = crate::caplog::take().iter().any(|l| l.1.contains(&victim.display().to_string()));
        let _ = std::fs::remove_dir_all(&victim); let _ = std::fs::rename(&aside, &victim);
        rep.eval();
        if !hit { rep.note("the damaged stored point was not visited; case not judged"); rep.class("natural|not-visited"); continue }
        let after = match observe(&srv, &crt, serial_now) { Ok(s) => s, Err(e) => { rep.inconclusive(format!("observe: {e}")); continue } };
        let replay = json!({"leg": "natural-failure", "world": w2, "damaged": victim.display().to_string(), "seed": ctx.seed, "shard": ctx.shard});
        rep.count("natural_failures_judged", 1);
        if before != after {
            rep.violation(format!("C33/served-data-changed/natural-failure/run-{}", if res.is_ok() { "reported-success" } else { "failed" }), format!(
                "a run that hit a fatal error on {} ({}) changed what is served: serial {:?} -> {:?}", victim.display(), if res.is_ok() { "and nevertheless reported success" } else { "and failed" }, before.rtr_state, after.rtr_state), replay);
        }
        rep.class(format!("natural|visited|run-{}", if res.is_ok() { "ok" } else { "err" }));
    }
}

fn run_c33(ctx: &mut Ctx, rep: &mut Report) {
    if ctx.shard % 2 == 1 { natural_failure_leg(ctx, rep); }
    let hooks = Hooks::install();
    hooks.set_record(false);
    let mut rng = ctx.rng("c33");
    let mut srv = match TestServer::start(&ctx.scratch, |c| { c.history_size = 5; }) {
        Ok(s) => s, Err(e) => { rep.inconclusive(format!("server start: {e}")); return }
    };
    let crt = tokio::runtime::Builder::new_current_thread().enable_all().build().unwrap();
    let mut cur = Model::rand(&mut rng);
    if srv.install(&hooks, &cur).is_err() { rep.inconclusive("first update failed"); return }
    let steps = ctx.tier.pick(40usize, 400);
    let mut successes = 0u32;
    let http = srv.http_addr;
    for step in 0..steps {
        if !ctx.time_left() { rep.note("time budget reached"); break }
        let fail = rng.chance(1, 2);
        let next = if rng.chance(2, 3) { cur.mutate(&mut rng) } else { cur.clone() };
        if !fail {
            if srv.install(&hooks, &next).is_err() { rep.inconclusive("successful run failed"); return }
            if next != cur { successes += 1 }
            cur = next;
            continue
        }
        let kind = if rng.bool() { 1u32 } else { 2 };
        let serial_now = u32::from(srv.history.read().serial());
        let from = serial_now.saturating_sub(rng.u32() % 3);
        let before = match observe(&srv, &crt, from) { Ok(s) => s, Err(e) => { rep.inconclusive(format!("observe: {e}")); continue } };
        // A parked subscriber that must not fire.
        let session = srv.history.read().session();
        let target = format!("/json-delta/notify?session={session}&serial={serial_now}");
        let sub = std::thread::spawn(move || http_request(http, "GET", &target, &[], None, Duration::from_secs(30)));
        std::thread::sleep(Duration::from_millis(30));
        if rng.bool() { std::thread::sleep(Duration::from_millis(1000)); } // let the clock move into the next second
        // The failed run: data that *would* have been installed is queued in the override hook.
        hooks.push_fault("run.outcome", Some(kind));
        hooks.set_snapshot(next.snapshot());
        let res = srv.process_once(false);
        // Remove the unused override so that it cannot leak into the next run.
        let _ = routinator::verif::override_snapshot();
        rep.eval();
        let replay = json!({"step": step, "kind": if kind == 1 { "retryable" } else { "fatal" }, "seed": ctx.seed, "shard": ctx.shard});
        match res {
            Ok(()) => { rep.inconclusive("forced failure did not fail the run"); continue }
            Err(e) => {
                if e.should_retry() != (kind == 1) { rep.note("failure kind differs from the forced one"); }
            }
        }
        let after = match observe(&srv, &crt, from) { Ok(s) => s, Err(e) => { rep.inconclusive(format!("observe: {e}")); continue } };
        if before != after {
            let mut diffs = Vec::new();
            if before.rtr_state != after.rtr_state { diffs.push("rtr-state") }
            if before.rtr_set != after.rtr_set { diffs.push("rtr-set") }
            if before.rtr_delta != after.rtr_delta { diffs.push("rtr-delta") }
            if before.json_body != after.json_body { diffs.push("json-body") }
            if before.etag != after.etag { diffs.push("etag") }
            if before.last_modified != after.last_modified { diffs.push("last-modified") }
            if before.delta_reset != after.delta_reset { diffs.push("json-delta-reset") }
            if before.delta_doc != after.delta_doc { diffs.push("json-delta-delta") }
            if before.status != after.status { diffs.push("status-serial/done") }
            if before.window != after.window { diffs.push("answers-for-retained-serials") }
            rep.violation(format!("C33/served-data-changed/{}", diffs.join("+")),
                format!("a failed run changed what is served: {:?} (ETag {:?} -> {:?}, Last-Modified {:?} -> {:?})",
                    diffs, before.etag, after.etag, before.last_modified, after.last_modified), replay.clone());
        }
        if sub.is_finished() {
            rep.violation("C33/notification-fired", "a parked notify subscriber was released by a failed run", replay.clone());
            let _ = sub.join();
        }
        else {
            // Release the subscriber with a successful changing run so threads do not pile up.
            let mut m = cur.mutate(&mut rng);
            if m == cur { m.origins.insert(crate::pgen::wide_origin(step as u32 + 7000, 65007)); }
            if srv.install(&hooks, &m).is_err() { rep.inconclusive("release update failed"); return }
            cur = m; successes += 1;
            let t0 = Instant::now();
            while !sub.is_finished() && t0.elapsed() < Duration::from_secs(10) { std::thread::sleep(Duration::from_millis(2)); }
            if sub.is_finished() { let _ = sub.join(); rep.count("subscribers_released_by_next_success", 1); }
            else { rep.note("subscriber not released by the following successful update"); }
        }
        let origins = parse_json_origins(&before.json_body).map(|s| s.len()).unwrap_or(0);
        rep.class(format!("kind{}|pos{}|wouldchange{}|items{}", kind, (successes.min(6)), (next != cur) as u8, origins.min(3)));
        if rep.samples.len() < 2 { rep.sample(json!({"step": step, "failure": if kind == 1 { "retryable" } else { "fatal" }, "etag": before.etag, "serial": serial_now})); }
    }
    Hooks::uninstall();
}

//------------ C34 -----------------------------------------------------------

pub const C34: Check = Check {
    id: "C34",
    level: "exploration",
    rule: "all combinations of refresh in {1,10,600,3600} s, min-refresh in {unset, smaller, equal, larger} and data-set expiry \
           placed before / at / after the refresh point (and already past); the data set's refresh() value is read back \
           from the installed snapshot and is the oracle's input; after a successful regular run through the real server \
           step, refresh_wait() is read with wall-clock stamps taken before and after the run so that the bound is \
           two-sided without a tolerance constant: lower(t_before) - elapsed <= wait <= upper(t_after), plus the \
           statement's inequalities floor <= wait <= max(refresh, min-refresh); with min-refresh set a third run follows whose payload is unchanged but whose data set expires at another time, and the wait must follow that expiry. exhaustive over the finite product; \
           distinct = (refresh, min-refresh class, expiry class) cells",
    assumptions: &["expiry has one-second resolution (Time); one extra second of slack is granted on the expiry-driven branch only"],
    shards: |_| 4,
    watchdog: |t| Duration::from_secs(t.pick(300, 3600)),
    budget: |t| Duration::from_secs(t.pick(25, 300)),
    run: run_c34,
    crash_is_violation: false,
    finish: None,
};

fn run_c34(ctx: &mut Ctx, rep: &mut Report) {
    let hooks = Hooks::install();
    hooks.set_record(false);
    let mut rng = ctx.rng("c34");
    let refreshes = [1u64, 10, 600, 3600];
    let mut cells = Vec::new();
    for r in refreshes { for m in 0..4 { for e in 0..6 { cells.push((r, m, e)); } } }
    let reps = ctx.tier.pick(1usize, 8);
    for rep_i in 0..reps {
        for (ci, (refresh, mclass, eclass)) in cells.iter().cloned().enumerate() {
            if ci % ctx.shards != ctx.shard { continue }
            if !ctx.time_left() { rep.note("time budget reached"); break }
            let min_refresh = match mclass { 0 => None, 1 => Some((refresh / 2).max(0)), 2 => Some(refresh), _ => Some(refresh * 2 + 1) };
            let mut srv = match TestServer::start(&ctx.scratch, |c| {
                c.refresh = Duration::from_secs(refresh);
                c.min_refresh = min_refresh.map(Duration::from_secs);
            }) { Ok(s) => s, Err(e) => { rep.inconclusive(format!("server start: {e}")); return } };
            // expiry classes relative to now+refresh
            let now = chrono::Utc::now();
            let expiry_off: Option<i64> = match eclass {
                0 => None,
                1 => Some(-30),                                   // already past
                2 => Some((refresh as i64 / 2).max(1)),           // before the refresh point
                3 => Some(refresh as i64),                        // at the refresh point
                4 => Some(refresh as i64 + 120),                  // after the refresh point
                _ => Some(((min_refresh.unwrap_or(refresh) as i64) / 2).max(1)), // before min-refresh
            };
            let expiry = expiry_off.map(|o| Time::new(now + chrono::Duration::seconds(o)));
            let model = Model::rand(&mut rng);
            // initial data set first (the property is about regular, non-initial runs)
            hooks.set_snapshot(model.snapshot_with_refresh(expiry));
            if srv.process_once(false).is_err() { rep.inconclusive("run failed"); continue }
            let second = model.mutate(&mut rng);
            hooks.set_snapshot(second.snapshot_with_refresh(expiry));
            let t_before = SystemTime::now();
            if srv.process_once(false).is_err() { rep.inconclusive("run failed"); continue }
            let t_after = SystemTime::now();
            let (wait, actual_refresh) = { let h = srv.history.read(); (h.refresh_wait(), h.current().and_then(|c| c.refresh())) };
            let t_read = SystemTime::now();
            rep.eval();
            let refresh_d = Duration::from_secs(refresh);
            let floor = min_refresh.map(Duration::from_secs).unwrap_or(refresh_d);
            let cap = std::cmp::max(refresh_d, floor);
            let replay = json!({"refresh": refresh, "min_refresh": min_refresh, "expiry_offset_s": expiry_off, "wait_s": wait.as_secs_f64()});
            if actual_refresh.map(|t| t.timestamp()) != expiry.map(|t| t.timestamp()) {
                rep.inconclusive("installed snapshot does not carry the generated refresh time"); continue
            }
            if wait < floor {
                rep.violation("C34/below-floor", format!("wait {:?} is shorter than {} {:?}", wait, if min_refresh.is_some() { "min-refresh" } else { "refresh" }, floor), replay.clone());
            }
            if wait > cap {
                rep.violation("C34/above-cap", format!("wait {:?} is longer than max(refresh, min-refresh) = {:?}", wait, cap), replay.clone());
            }
            // Exact expectation: next start = min(done + refresh, expiry), done in [t_before, t_after]; wait = max(next - now, floor).
            let exp_t = expiry.map(|t| SystemTime::from(t));
            let next_lo = { let a = t_before + refresh_d; match exp_t { Some(e) if e < a => e, _ => a } };
            let next_hi = { let a = t_after + refresh_d; match exp_t { Some(e) if e < a => e, _ => a } };
            let lower = std::cmp::max(next_lo.duration_since(t_read).unwrap_or(Duration::ZERO), floor);
            let upper = std::cmp::max(next_hi.duration_since(t_after).unwrap_or(Duration::ZERO), floor);
            if min_refresh.is_some() {
                let slack = Duration::from_secs(1);
                if wait + slack < lower || wait > upper + slack {
                    rep.violation("C34/expiry-not-honoured", format!(
                        "wait {:?} outside [{:?}, {:?}] derived from refresh {refresh}s, min-refresh {:?}, expiry offset {:?}s", wait, lower, upper, min_refresh, expiry_off), replay.clone());
                }
            }
            rep.class(format!("r{}|m{}|e{}", refresh, mclass, eclass));
            if rep.samples.len() < 3 { rep.sample(replay); }
            let _ = rep_i;
            // A third run whose payload is identical to the second one's but whose data set expires at another time
            // (objects were re-issued): the wait must follow the data set of this run.
            if min_refresh.is_some() {
                let off3: i64 = if eclass == 2 { refresh as i64 + 120 } else { (refresh as i64 / 2).max(1) };
                let expiry3 = Some(Time::new(chrono::Utc::now() + chrono::Duration::seconds(off3)));
                hooks.set_snapshot(second.snapshot_with_refresh(expiry3));
                let t_before = SystemTime::now();
                if srv.process_once(false).is_err() { rep.inconclusive("run failed"); continue }
                let t_after = SystemTime::now();
                let wait = srv.history.read().refresh_wait();
                let t_read = SystemTime::now();
                rep.eval();
                let exp_t = expiry3.map(SystemTime::from);
                let next_lo = { let a = t_before + refresh_d; match exp_t { Some(e) if e < a => e, _ => a } };
                let next_hi = { let a = t_after + refresh_d; match exp_t { Some(e) if e < a => e, _ => a } };
                let lower = std::cmp::max(next_lo.duration_since(t_read).unwrap_or(Duration::ZERO), floor);
                let upper = std::cmp::max(next_hi.duration_since(t_after).unwrap_or(Duration::ZERO), floor);
                let slack = Duration::from_secs(1);
                if wait + slack < lower || wait > upper + slack {
                    rep.violation("C34/expiry-of-unchanged-payload-not-honoured", format!(
                        "third run with unchanged payload but data-set expiry moved from offset {:?}s to {off3}s: wait {:?} outside [{:?}, {:?}] (refresh {refresh}s, min-refresh {:?})", expiry_off, wait, lower, upper, min_refresh),
                        json!({"refresh": refresh, "min_refresh": min_refresh, "first_expiry_offset_s": expiry_off, "second_expiry_offset_s": off3, "wait_s": wait.as_secs_f64()}));
                }
                rep.class(format!("r{}|m{}|e{}|unchanged-payload-new-expiry", refresh, mclass, eclass));
            }
        }
    }
    Hooks::uninstall();
}
