//! C15 (responses pair each serial with its own data), C16 (304 only for
//! the served version), C17 (notify long-poll never misses a change) –
//! schedule properties of the real server update step vs. real listeners.

use std::collections::{BTreeMap, BTreeSet};
use std::sync::{Arc, Mutex};
use std::sync::atomic::{AtomicBool, Ordering};
use std::time::{Duration, Instant};
use serde_json::{json, Value};
use rpki::rtr::state::State;
use crate::core::{Check, Ctx, Report, Rng};
use crate::hooks::{Action as HookAction, Hooks};
use crate::pgen::{fmt_origin, wide_origin, Model};
use crate::props::jsondelta::{expected_delta, model_items, parse_delta};
use crate::srv::{http_get, http_request, model_from_rtr, rtr_query, HttpResponse, TestServer};

/// A version with a unique marker origin (index = version number).
fn version_model(rng: &mut Rng, k: u32) -> Model {
    let mut m = Model::rand(rng);
    m.origins.insert(wide_origin(2 * (k + 10), 65100));
    m
}

/// Version k of a C15 history: normally a fresh random data set with a marker origin; every fourth version is its
/// predecessor with only a router key added or removed (no origin changes at all).
fn next_version(rng: &mut Rng, k: u32, prev: Option<&Model>) -> Model {
    match prev {
        Some(p) if k % 4 == 3 => {
            let mut m = p.clone();
            let key = crate::pgen::router_key(1000 + k);
            if !m.keys.remove(&key) { m.keys.insert(key); }
            m
        }
        _ => version_model(rng, k),
    }
}

/// Parses the origins of a /json body into canonical item strings.
pub fn parse_json_origins(body: &[u8]) -> Result<BTreeSet<String>, String> {
    let v: Value = serde_json::from_slice(body).map_err(|e| format!("invalid JSON: {e}"))?;
    let mut out = BTreeSet::new();
    for r in v.get("roas").and_then(|x| x.as_array()).ok_or("no roas")? {
        let asn = r.get("asn").and_then(|x| x.as_str()).ok_or("no asn")?;
        let prefix = r.get("prefix").and_then(|x| x.as_str()).ok_or("no prefix")?;
        let max = r.get("maxLength").and_then(|x| x.as_u64()).ok_or("no maxLength")?;
        let (addr, len) = prefix.split_once('/').ok_or("bad prefix")?;
        if !out.insert(format!("{}/{}-{} {}", addr, len, max, asn)) { return Err("duplicate roa".into()) }
    }
    Ok(out)
}

pub fn parse_csv_origins(body: &[u8]) -> Result<BTreeSet<String>, String> {
    let text = String::from_utf8_lossy(body);
    let mut out = BTreeSet::new();
    for (i, line) in text.lines().enumerate() {
        if i == 0 { continue }
        let f: Vec<&str> = line.split(',').collect();
        if f.len() < 3 { return Err(format!("bad csv line {line}")) }
        let (addr, len) = f[1].split_once('/').ok_or("bad prefix")?;
        if !out.insert(format!("{}/{}-{} {}", addr, len, f[2], f[0])) { return Err("duplicate csv line".into()) }
    }
    Ok(out)
}

fn origin_items(m: &Model) -> BTreeSet<String> { m.origins.iter().map(fmt_origin).collect() }

fn etag_serial(etag: &str) -> Option<(String, u32)> {
    let t = etag.trim_matches('"');
    let (s, n) = t.rsplit_once('-')?;
    Some((s.to_string(), n.parse().ok()?))
}

//------------ C15 -----------------------------------------------------------

pub const C15: Check = Check {
    id: "C15",
    level: "exploration",
    rule: "one writer thread runs the real server update step (Server::process_once via hook wrapper) installing \
           versions that each carry a unique marker item, with seeded delays injected at the four hook points between \
           the update steps and random jitter before every acquisition of the history lock; 6 reader threads concurrently issue RTR reset and serial queries (real rtr_listener, \
           rpki's RTR client, protocol v2), GET /json, /csv, /json-delta reset and delta (real http_listener). Every \
           response is recorded {op, call, return, session, serial/ETag, items}. Oracle: (a) a full set tagged serial S \
           equals version S exactly, a delta A->S turns version A into version S, ETag serial equals body version; \
           (b) S's possible-currency interval [before_update(S), after_update(S+1)] (hook events, same monotonic clock) \
           intersects [call, return]; (c) before the first update only 503 / RTR errors. distinct = (op, interleaving \
           class of the response interval relative to the update steps) pairs; all four interleaving classes must be seen",
    assumptions: &["every generated version differs from its predecessor, so version k has serial k"],
    shards: |_| 8,
    watchdog: |t| Duration::from_secs(t.pick(300, 3600)),
    budget: |t| Duration::from_secs(t.pick(20, 300)),
    run: run_c15,
    crash_is_violation: false,
    finish: Some(finish_c15),
};

#[derive(Clone, Debug)]
struct Obs {
    op: String,
    t_call: Instant,
    t_return: Instant,
    serial: Option<u32>,
    from: Option<u32>,
    /// full item set (for full answers)
    full: Option<BTreeSet<String>>,
    /// for deltas: (announced, withdrawn)
    delta: Option<(BTreeSet<String>, BTreeSet<String>)>,
    origins_only: bool,
    status: String,
}

fn items_from_rtr(items: &[(rpki::rtr::payload::Action, rpki::rtr::payload::Payload)]) -> (BTreeSet<String>, BTreeSet<String>) {
    use crate::pgen::{fmt_key, fmt_prov};
    let mut ann = BTreeSet::new();
    let mut wd = BTreeSet::new();
    for (a, p) in items {
        let (s, w) = match p.as_ref() {
            rpki::rtr::payload::PayloadRef::Origin(o) => (fmt_origin(&o), fmt_origin(&o)),
            rpki::rtr::payload::PayloadRef::RouterKey(k) => (fmt_key(k), fmt_key(k)),
            rpki::rtr::payload::PayloadRef::Aspa(x) => (format!("aspa {} {}", x.customer, fmt_prov(&x.providers)), format!("aspa {} *", x.customer)),
        };
        if a.is_announce() { ann.insert(s); } else { wd.insert(w); }
    }
    (ann, wd)
}

fn run_c15(ctx: &mut Ctx, rep: &mut Report) {
    let hooks = Hooks::install();
    let mut rng = ctx.rng("c15");
    let mut srv = match TestServer::start(&ctx.scratch, |c| { c.history_size = 4; }) {
        Ok(s) => s, Err(e) => { rep.inconclusive(format!("server start: {e}")); return }
    };
    let http = srv.http_addr;
    let rtr = srv.rtr_addr;
    // (c) before the first update.
    match http_get(http, "/json") {
        Ok(r) if r.status == 503 => rep.count("pre_first_503", 1),
        Ok(r) => rep.violation("C15/served-before-first-update", format!("GET /json answered {} before the first validation completed", r.status), json!({})),
        Err(e) => rep.inconclusive(format!("pre-first http: {e}")),
    }
    {
        let crt = tokio::runtime::Builder::new_current_thread().enable_all().build().unwrap();
        match rtr_query(&crt, rtr, None, Duration::from_secs(5)) {
            Ok(Some(a)) => rep.violation("C15/served-before-first-update", format!("RTR reset answered with serial {} and {} items before the first validation", a.state.serial(), a.items.len()), json!({})),
            _ => rep.count("pre_first_rtr_refused", 1),
        }
    }
    let n_versions = ctx.tier.pick(24u32, 4000);
    let mut versions: Vec<Model> = Vec::new();
    for k in 0..n_versions { let v = next_version(&mut rng, k, versions.last()); versions.push(v); }
    let versions = Arc::new(versions);
    let stop = Arc::new(AtomicBool::new(false));
    let installed = Arc::new(Mutex::new(0u32));
    let obs: Arc<Mutex<Vec<Obs>>> = Arc::new(Mutex::new(Vec::new()));
    let errors: Arc<Mutex<Vec<String>>> = Arc::new(Mutex::new(Vec::new()));
    let session = srv.history.read().session();
    let rtr_session = srv.history.read().rtr_session();

    // Readers.
    let mut readers = Vec::new();
    for rid in 0..6u64 {
        let stop = stop.clone();
        let obs = obs.clone();
        let errors = errors.clone();
        let installed = installed.clone();
        let mut rng = Rng::derive(ctx.seed, "c15-reader", rid + 100 * ctx.shard as u64);
        readers.push(std::thread::spawn(move || {
            let crt = tokio::runtime::Builder::new_current_thread().enable_all().build().unwrap();
            let mut last_serial: Option<u32> = None;
            while !stop.load(Ordering::SeqCst) {
                if *installed.lock().unwrap() == 0 { std::thread::sleep(Duration::from_millis(1)); continue }
                let op = rng.usize(6);
                let res: Result<Obs, String> = match op {
                    0 => rtr_query(&crt, rtr, None, Duration::from_secs(10)).and_then(|a| a.ok_or("no answer".to_string())).map(|a| {
                        let (ann, _) = items_from_rtr(&a.items);
                        Obs { op: "rtr-reset".into(), t_call: a.t_call, t_return: a.t_return, serial: Some(a.state.serial().into()), from: None,
                              full: Some(ann), delta: None, origins_only: false, status: format!("session {}", a.state.session()) }
                    }),
                    1 => {
                        let from = last_serial.unwrap_or(0);
                        rtr_query(&crt, rtr, Some(State::from_parts(rtr_session, from.into())), Duration::from_secs(10))
                            .and_then(|a| a.ok_or("no answer".to_string())).map(|a| {
                            let (ann, wd) = items_from_rtr(&a.items);
                            if a.reset {
                                Obs { op: "rtr-serial->reset".into(), t_call: a.t_call, t_return: a.t_return, serial: Some(a.state.serial().into()), from: None,
                                      full: Some(ann), delta: None, origins_only: false, status: String::new() }
                            } else {
                                Obs { op: "rtr-serial".into(), t_call: a.t_call, t_return: a.t_return, serial: Some(a.state.serial().into()), from: Some(from),
                                      full: None, delta: Some((ann, wd)), origins_only: false, status: String::new() }
                            }
                        })
                    }
                    2 | 3 => {
                        let path = if op == 2 { "/json" } else { "/csv" };
                        http_get(http, path).and_then(|r| {
                            if r.status != 200 { return Err(format!("{path} status {}", r.status)) }
                            let items = if op == 2 { parse_json_origins(&r.body)? } else { parse_csv_origins(&r.body)? };
                            let et = r.header("etag").and_then(etag_serial).ok_or("no etag")?;
                            Ok(Obs { op: path.into(), t_call: r.t_call.unwrap(), t_return: r.t_return.unwrap(), serial: Some(et.1), from: None,
                                full: Some(items), delta: None, origins_only: true, status: et.0 })
                        })
                    }
                    4 => http_get(http, "/json-delta").and_then(|r| {
                        if r.status != 200 { return Err(format!("json-delta status {}", r.status)) }
                        let p = parse_delta(&r.body)?;
                        Ok(Obs { op: "/json-delta reset".into(), t_call: r.t_call.unwrap(), t_return: r.t_return.unwrap(), serial: Some(p.serial as u32), from: None,
                            full: Some(p.announced.iter().cloned().collect()), delta: None, origins_only: false, status: p.session })
                    }),
                    _ => {
                        let from = last_serial.unwrap_or(0);
                        http_get(http, &format!("/json-delta?session={session}&serial={from}")).and_then(|r| {
                            if r.status != 200 { return Err(format!("json-delta status {}", r.status)) }
                            let p = parse_delta(&r.body)?;
                            if p.reset {
                                Ok(Obs { op: "/json-delta delta->reset".into(), t_call: r.t_call.unwrap(), t_return: r.t_return.unwrap(), serial: Some(p.serial as u32), from: None,
                                    full: Some(p.announced.iter().cloned().collect()), delta: None, origins_only: false, status: p.session })
                            } else {
                                let wd = p.withdrawn.iter().map(|s| if let Some(r) = s.strip_prefix("aspa ") { format!("aspa {} *", r.split(' ').next().unwrap_or("")) } else { s.clone() }).collect();
                                Ok(Obs { op: "/json-delta delta".into(), t_call: r.t_call.unwrap(), t_return: r.t_return.unwrap(), serial: Some(p.serial as u32), from: Some(from),
                                    full: None, delta: Some((p.announced.iter().cloned().collect(), wd)), origins_only: false, status: p.session })
                            }
                        })
                    }
                };
                match res {
                    Ok(o) => { if rng.chance(2, 3) { last_serial = o.serial; } obs.lock().unwrap().push(o); }
                    Err(e) => { let mut g = errors.lock().unwrap(); if g.len() < 20 { g.push(e) } }
                }
            }
        }));
    }

    // Jitter before every acquisition of the history lock: widens the gap between any two separate critical
    // sections of one query (a query that reads serial and data under two acquisitions becomes observable).
    hooks.seed_jitter(ctx.seed ^ (ctx.shard as u64) << 32);
    hooks.set_action("history.read", Some(HookAction::Jitter(ctx.tier.pick(400, 1500))));
    hooks.set_action("history.write", Some(HookAction::Jitter(200)));
    // Writer (this thread): install versions with delays at the hook points.
    let points = ["server.before_update", "server.after_update", "server.after_done", "server.before_notify"];
    for k in 0..n_versions {
        if !ctx.time_left() { rep.note("time budget reached"); break }
        for p in points.iter() {
            let d = match rng.usize(4) { 0 => 0, 1 => 1, 2 => 3, _ => 8 };
            hooks.set_action(p, if d == 0 { None } else { Some(HookAction::Sleep(Duration::from_millis(d))) });
        }
        if srv.install(&hooks, &versions[k as usize]).is_err() { rep.inconclusive("update failed"); break }
        *installed.lock().unwrap() = k + 1;
        std::thread::sleep(Duration::from_millis(rng.below(6)));
    }
    std::thread::sleep(Duration::from_millis(20));
    stop.store(true, Ordering::SeqCst);
    for r in readers { let _ = r.join(); }
    for p in points.iter() { hooks.set_action(p, None); }
    hooks.set_action("history.read", None);
    hooks.set_action("history.write", None);
    rep.count("history_lock_acquisitions_jittered", hooks.count("history.read") + hooks.count("history.write"));
    let installed_n = *installed.lock().unwrap();

    // Build currency intervals from hook events.
    let events = hooks.take_events();
    let before: Vec<Instant> = events.iter().filter(|e| e.name == "server.before_update").map(|e| e.t).collect();
    let after: Vec<Instant> = events.iter().filter(|e| e.name == "server.after_update").map(|e| e.t).collect();
    let done: Vec<Instant> = events.iter().filter(|e| e.name == "server.after_done").map(|e| e.t).collect();
    let notified: Vec<Instant> = events.iter().filter(|e| e.name == "server.after_notify").map(|e| e.t).collect();
    rep.count("hook_events_read", events.len() as u64);
    if before.len() < installed_n as usize || after.len() < installed_n as usize {
        rep.inconclusive("hook events missing for some updates"); return
    }
    let observations = obs.lock().unwrap().clone();
    rep.count("responses_recorded", observations.len() as u64);
    for e in errors.lock().unwrap().iter() { rep.note(format!("reader error: {e}")); }
    let end = Instant::now();
    for o in &observations {
        rep.eval();
        let Some(s) = o.serial else { continue };
        let replay = json!({"op": o.op, "serial": s, "from": o.from, "seed": ctx.seed, "shard": ctx.shard});
        if s >= installed_n {
            rep.violation("C15/unknown-serial", format!("{}: response tagged serial {s} but only {installed_n} versions were installed", o.op), replay);
            continue
        }
        let v = &versions[s as usize];
        // (a) internal consistency
        if let Some(full) = &o.full {
            let exp = if o.origins_only { origin_items(v) } else { model_items(v) };
            if full != &exp {
                // which version does the data belong to?
                let owner = versions.iter().position(|m| (if o.origins_only { origin_items(m) } else { model_items(m) }) == *full);
                rep.violation("C15/serial-data-mismatch", format!(
                    "{}: response tagged serial {s} carries data of {}", o.op,
                    owner.map(|k| format!("version {k}")).unwrap_or_else(|| "no single version (mixture)".into())), replay.clone());
            }
        }
        if let (Some((ann, wd)), Some(from)) = (&o.delta, o.from) {
            if (from as usize) < versions.len() {
                let (ea, ew) = expected_delta(&versions[from as usize], v);
                if ann != &ea || wd != &ew {
                    rep.violation("C15/delta-mismatch", format!("{}: change set {from}->{s} does not match the versions", o.op), replay.clone());
                }
            }
        }
        // (b) real-time: version s may be current from before_update[s] to after_update[s+1].
        let lo = before[s as usize];
        let hi = if (s as usize + 1) < after.len() { after[s as usize + 1] } else { end };
        if o.t_return < lo || o.t_call > hi {
            rep.violation("C15/stale-or-future-version", format!(
                "{}: serial {s} was not current at any instant of the request interval", o.op), replay.clone());
        }
        // interleaving class
        let overl = |a: &Vec<Instant>, b: &Vec<Instant>| -> bool {
            a.iter().zip(b.iter()).any(|(x, y)| o.t_call <= *y && o.t_return >= *x)
        };
        let class = if overl(&before, &after) { "during-install" }
            else if overl(&after, &done) { "installed-not-done" }
            else if overl(&done, &notified) { "done-not-notified" }
            else { "quiet" };
        rep.class(format!("{}|{}", o.op, class));
        rep.count(&format!("interleaving_{class}"), 1);
    }
    if let Some(o) = observations.first() {
        rep.sample(json!({"op": o.op, "serial": o.serial, "from": o.from, "items": o.full.as_ref().map(|f| f.len()),
            "duration_us": o.t_return.duration_since(o.t_call).as_micros() as u64}));
    }
    Hooks::uninstall();
}

fn finish_c15(_t: crate::core::Tier, rep: &mut Report) {
    for c in ["during-install", "installed-not-done", "done-not-notified", "quiet"] {
        if rep.counters.get(&format!("interleaving_{c}")).copied().unwrap_or(0) == 0 {
            rep.inconclusive(format!("interleaving class '{c}' was never observed"));
            rep.count("inconclusive_fatal", 1);
        }
    }
}

//------------ C16 -----------------------------------------------------------

pub const C16: Check = Check {
    id: "C16",
    level: "exploration",
    rule: "clients keep (ETag, Last-Modified) from earlier 200 responses, tagged by the harness with the fingerprint of \
           the payload parsed from the body they came with; the writer runs change and no-change updates and is parked \
           (rendezvous hook) before_update / after_update (new data installed, completion time not recorded) / after_done; \
           while parked and after release, conditional GETs with If-None-Match only, If-Modified-Since only and both go to \
           /json,/csv,/jsonext,/slurm,/openbgpd,/bird2,/rpsl,/csvext. Because the writer is parked the served version is known exactly. \
           Oracle: a 304 is a violation iff the version served at that moment has a different payload fingerprint than \
           the one the presented validators came with. Real-time variant: updates within the same second and across \
           second boundaries. Racing leg: GET /json runs while an update is installed under lock-acquisition jitter; validators are tagged by the version found in the response body. distinct = (park point, changed?, validator kind, endpoint, status) classes",
    assumptions: &["only validators issued by this server for these endpoints are presented (never '*', never invented dates)"],
    shards: |_| 8,
    watchdog: |t| Duration::from_secs(t.pick(300, 3600)),
    budget: |t| Duration::from_secs(t.pick(25, 300)),
    run: run_c16,
    crash_is_violation: false,
    finish: None,
};

#[derive(Clone, Debug)]
struct Validators { etag: String, last_modified: String, fp: String, endpoint: &'static str, version: usize }

fn run_c16(ctx: &mut Ctx, rep: &mut Report) {
    let hooks = Hooks::install();
    hooks.set_record(false);
    let mut rng = ctx.rng("c16");
    let srv = match TestServer::start(&ctx.scratch, |_| {}) {
        Ok(s) => s, Err(e) => { rep.inconclusive(format!("server start: {e}")); return }
    };
    let http = srv.http_addr;
    let srv = Arc::new(Mutex::new(srv));
    let endpoints: [&'static str; 8] = ["/json", "/csv", "/jsonext", "/slurm", "/openbgpd", "/bird2", "/rpsl", "/csvext"];
    let mut held: Vec<Validators> = Vec::new();
    let mut versions: Vec<Model> = vec![version_model(&mut rng, 0)];
    if srv.lock().unwrap().install(&hooks, &versions[0]).is_err() { rep.inconclusive("first update failed"); return }
    let rounds = ctx.tier.pick(14usize, 150);
    let fetch = |ep: &'static str, version: usize, fp: &str, held: &mut Vec<Validators>, rep: &mut Report| {
        match http_get(http, ep) {
            Ok(r) if r.status == 200 => {
                if let (Some(e), Some(l)) = (r.header("etag"), r.header("last-modified")) {
                    held.push(Validators { etag: e.to_string(), last_modified: l.to_string(), fp: fp.to_string(), endpoint: ep, version });
                } else { rep.note(format!("{ep}: 200 without validators")); }
            }
            Ok(r) => rep.note(format!("{ep}: status {}", r.status)),
            Err(e) => rep.inconclusive(format!("http: {e}")),
        }
    };
    for ep in endpoints.iter() { fetch(ep, 0, &versions[0].fingerprint(), &mut held, rep); }
    for round in 0..rounds {
        if !ctx.time_left() { rep.note("time budget reached"); break }
        let cur = versions.last().unwrap().clone();
        let change = rng.chance(2, 3);
        let next = if change { version_model(&mut rng, round as u32 + 1) } else { cur.clone() };
        let park = *rng.pick(&["server.before_update", "server.after_update", "server.after_done"]);
        // Real-time variation: sometimes wait to cross a second boundary, sometimes update at once.
        match rng.usize(4) { 0 => std::thread::sleep(Duration::from_millis(1050)), 1 => std::thread::sleep(Duration::from_millis(rng.below(300))), _ => {} }
        let before_arrivals = hooks.arrived(park);
        hooks.set_action(park, Some(HookAction::Park));
        let srv2 = srv.clone();
        let hooks2 = hooks.clone();
        let next2 = next.clone();
        let writer = std::thread::spawn(move || { srv2.lock().unwrap().install(&hooks2, &next2).is_ok() });
        if !hooks.wait_arrived(park, before_arrivals + 1, Duration::from_secs(20)) {
            rep.inconclusive(format!("writer never reached {park}"));
            hooks.release_all(park); let _ = writer.join(); return
        }
        // Which version is served while parked?
        let served_now = if park == "server.before_update" { cur.clone() } else { next.clone() };
        let probe = |phase: &str, served: &Model, held: &Vec<Validators>, rep: &mut Report, rng: &mut Rng| {
            let served_fp = served.fingerprint();
            // Present a sample of held validators (most recent ones per endpoint and some old ones).
            let mut picks: Vec<&Validators> = Vec::new();
            for ep in endpoints.iter() {
                if let Some(v) = held.iter().rev().find(|v| v.endpoint == *ep) { picks.push(v) }
            }
            for _ in 0..4 { if !held.is_empty() { picks.push(&held[rng.usize(held.len())]) } }
            for v in picks {
                for kind in 0..3 {
                    let mut headers: Vec<(&str, String)> = Vec::new();
                    if kind == 0 || kind == 2 { headers.push(("If-None-Match", v.etag.clone())); }
                    if kind == 1 || kind == 2 { headers.push(("If-Modified-Since", v.last_modified.clone())); }
                    let r: Result<HttpResponse, String> = http_request(http, "GET", v.endpoint, &headers, None, Duration::from_secs(20));
                    rep.eval();
                    match r {
                        Ok(r) => {
                            let kind_s = ["inm", "ims", "both"][kind];
                            rep.class(format!("{phase}|changed{}|{kind_s}|{}|{}|same{}", change as u8, v.endpoint, r.status, (v.fp == served_fp) as u8));
                            if r.status == 304 {
                                rep.count("responses_304", 1);
                                if v.fp != served_fp {
                                    rep.violation(format!("C16/stale-304/{phase}/{kind_s}"), format!(
                                        "{}: 304 for validators of version {} ({} / {}) while a different data version is served (phase {phase})",
                                        v.endpoint, v.version, v.etag, v.last_modified),
                                        json!({"phase": phase, "kind": kind_s, "endpoint": v.endpoint, "round": round, "seed": ctx.seed, "shard": ctx.shard}));
                                }
                            } else if r.status == 200 { rep.count("responses_200", 1); }
                            else { rep.note(format!("{}: status {}", v.endpoint, r.status)); }
                        }
                        Err(e) => rep.inconclusive(format!("http: {e}")),
                    }
                }
            }
        };
        let phase = match park { "server.before_update" => "parked-before-update", "server.after_update" => "parked-installed-not-done", _ => "parked-done" };
        probe(phase, &served_now, &held, rep, &mut rng);
        hooks.set_action(park, None);
        hooks.release(park);
        if !writer.join().unwrap_or(false) { rep.inconclusive("update failed"); return }
        versions.push(next.clone());
        probe("after-update", &next, &held, rep, &mut rng);
        // Collect fresh validators for the new version.
        let vi = versions.len() - 1;
        for ep in endpoints.iter() { if rng.bool() { fetch(ep, vi, &next.fingerprint(), &mut held, rep); } }
        if held.len() > 400 { held.drain(0..200); }
        // Racing leg: fetches run while an update is being installed (jitter before every acquisition of the history
        // lock); the validators of every 200 response are tagged with the version its *body* holds (parsed), so a
        // response pairing one version's validators with another version's body is caught by the later conditional GETs.
        if round % 2 == 1 {
            let cur = versions.last().unwrap().clone();
            let next = version_model(&mut rng, 1000 + round as u32);
            hooks.seed_jitter(ctx.seed ^ ((ctx.shard as u64) << 32) ^ round as u64);
            hooks.set_action("history.read", Some(HookAction::Jitter(800)));
            let stop = Arc::new(AtomicBool::new(false));
            let mut fetchers = Vec::new();
            for _ in 0..3 {
                let stop = stop.clone();
                fetchers.push(std::thread::spawn(move || {
                    let mut got: Vec<(String, String, BTreeSet<String>)> = Vec::new();
                    while !stop.load(Ordering::SeqCst) && got.len() < 60 {
                        if let Ok(r) = http_get(http, "/json") {
                            if r.status == 200 { if let (Some(e), Some(l), Ok(items)) = (r.header("etag"), r.header("last-modified"), parse_json_origins(&r.body)) { got.push((e.to_string(), l.to_string(), items)); } }
                        }
                    }
                    got
                }));
            }
            std::thread::sleep(Duration::from_millis(2));
            let ok = srv.lock().unwrap().install(&hooks, &next).is_ok();
            std::thread::sleep(Duration::from_millis(3));
            stop.store(true, Ordering::SeqCst);
            let mut raced: Vec<(String, String, BTreeSet<String>)> = Vec::new();
            for f in fetchers { if let Ok(g) = f.join() { raced.extend(g); } }
            hooks.set_action("history.read", None);
            if !ok { rep.inconclusive("update failed"); return }
            versions.push(next.clone());
            let (cur_items, next_items) = (origin_items(&cur), origin_items(&next));
            let mut raced_held: Vec<Validators> = Vec::new();
            for (etag, lm, items) in raced {
                let (fp, version) = if items == next_items { (next.fingerprint(), versions.len() - 1) } else if items == cur_items { (cur.fingerprint(), versions.len() - 2) } else { rep.count("raced_bodies_matching_no_version", 1); continue };
                rep.count("raced_responses_tagged_by_body", 1);
                raced_held.push(Validators { etag, last_modified: lm, fp, endpoint: "/json", version });
            }
            // present the validators that came with the old body first (they must not yield 304 now), then some others
            raced_held.sort_by_key(|v| v.fp == next.fingerprint());
            raced_held.dedup_by(|a, b| a.etag == b.etag && a.fp == b.fp && a.last_modified == b.last_modified);
            raced_held.truncate(10);
            for chunk in raced_held.chunks(1) { let one: Vec<Validators> = chunk.to_vec(); probe("after-race", &next, &one, rep, &mut rng); }
            held.extend(raced_held);
        }
    }
    if let Some(v) = held.last() {
        rep.sample(json!({"endpoint": v.endpoint, "etag": v.etag, "last_modified": v.last_modified, "payload_fingerprint": v.fp}));
    }
    Hooks::uninstall();
}

//------------ C17 -----------------------------------------------------------

pub const C17: Check = Check {
    id: "C17",
    level: "exploration",
    rule: "rendezvous schedule: a GET /json-delta/notify?session&serial=v request is parked at the hook between its version \
           check and its subscription; the writer completes an update to v+1 including the notification; the request is \
           released. Oracle (causal): the response must arrive carrying serial v+1 without a further update; if nothing \
           arrives within a generous watchdog one more update is made: a response that then carries v+2 is the witness \
           'waited for a further update' (violation), no response at all is inconclusive. Also: requests arriving while \
           the writer is parked between installing and notifying, requests with an outdated or foreign version (must \
           return at once), a client two versions behind whose missed updates cancel each other (must return at once) and the blocking case (no response before the next update). distinct = scenario x outcome",
    assumptions: &["a response within 3 s of the release counts as 'without waiting'; the verdict is the causal witness (v+2), not the delay"],
    shards: |_| 8,
    watchdog: |t| Duration::from_secs(t.pick(300, 3600)),
    budget: |t| Duration::from_secs(t.pick(25, 300)),
    run: run_c17,
    crash_is_violation: false,
    finish: None,
};

fn notify_serial(r: &HttpResponse) -> Option<(String, u32)> {
    let v: Value = serde_json::from_slice(&r.body).ok()?;
    let session = match v.get("session")? { Value::String(s) => s.clone(), other => other.to_string() };
    Some((session, v.get("serial")?.as_u64()? as u32))
}

fn run_c17(ctx: &mut Ctx, rep: &mut Report) {
    let hooks = Hooks::install();
    hooks.set_record(false);
    let mut rng = ctx.rng("c17");
    // a small history: after two changes every further one evicts a change set (the notification must not depend on
    // the history still growing)
    let mut srv = match TestServer::start(&ctx.scratch, |c| { c.history_size = 2; }) {
        Ok(s) => s, Err(e) => { rep.inconclusive(format!("server start: {e}")); return }
    };
    let http = srv.http_addr;
    let mut k = 0u32;
    if srv.install(&hooks, &version_model(&mut rng, k)).is_err() { rep.inconclusive("first update failed"); return }
    let session = srv.history.read().session();
    let rounds = ctx.tier.pick(10usize, 1500);
    let point = "notify.before_subscribe";
    for round in 0..rounds {
        if !ctx.time_left() { rep.note("time budget reached"); break }
        let scenario = rng.usize(5);
        let v = u32::from(srv.history.read().serial());
        match scenario {
            0 | 1 => {
                // Lost wake-up schedule.
                let before = hooks.arrived(point);
                hooks.set_action(point, Some(HookAction::Park));
                let target = format!("/json-delta/notify?session={session}&serial={v}");
                let t2 = target.clone();
                let h = std::thread::spawn(move || http_request(http, "GET", &t2, &[], None, Duration::from_secs(30)));
                if !hooks.wait_arrived(point, before + 1, Duration::from_secs(10)) {
                    rep.inconclusive("notify request never reached the hook"); hooks.release_all(point); let _ = h.join(); continue
                }
                hooks.set_action(point, None);
                // Complete an update including notify() while the request sits between check and subscribe.
                k += 1;
                if srv.install(&hooks, &version_model(&mut rng, k)).is_err() { rep.inconclusive("update failed"); return }
                hooks.release(point);
                // Wait for the response without a further update.
                let t0 = Instant::now();
                let mut done = false;
                while t0.elapsed() < Duration::from_secs(3) {
                    if h.is_finished() { done = true; break }
                    std::thread::sleep(Duration::from_millis(5));
                }
                rep.eval();
                if done {
                    match h.join().unwrap() {
                        Ok(r) => match notify_serial(&r) {
                            Some((_, s)) if s == v + 1 => rep.class("lost-wakeup-schedule|answered-v+1"),
                            Some((_, s)) => rep.violation("C17/wrong-serial", format!("notify answered serial {s}, expected {}", v + 1), json!({"round": round})),
                            None => rep.violation("C17/bad-body", format!("notify body unparsable: {}", r.text()), json!({"round": round})),
                        },
                        Err(e) => rep.inconclusive(format!("notify http: {e}")),
                    }
                }
                else {
                    // One more update: does the request answer now, with v+2?
                    k += 1;
                    if srv.install(&hooks, &version_model(&mut rng, k)).is_err() { rep.inconclusive("update failed"); return }
                    let t1 = Instant::now();
                    while t1.elapsed() < Duration::from_secs(10) && !h.is_finished() { std::thread::sleep(Duration::from_millis(5)); }
                    if h.is_finished() {
                        match h.join().unwrap() {
                            Ok(r) => match notify_serial(&r) {
                                Some((_, s)) if s == v + 2 => {
                                    rep.class("lost-wakeup-schedule|waited-for-further-update");
                                    rep.violation("C17/lost-wakeup/check-before-subscribe", format!(
                                        "notify request presenting serial {v} was between its version check and its subscription while the update to {} \
                                         completed and was notified; it did not answer until a further update and then carried serial {s}", v + 1),
                                        json!({"schedule": ["request: version check (serial current)", "writer: update+notify", "request: subscribe", "writer: second update+notify", "request: answers"], "round": round}));
                                }
                                other => rep.inconclusive(format!("late notify answer with unexpected content {:?}", other)),
                            },
                            Err(e) => rep.inconclusive(format!("notify http: {e}")),
                        }
                    }
                    else { rep.inconclusive("notify request never answered, even after a further update"); }
                }
            }
            4 => {
                // Net-zero history: two updates that cancel each other (an item announced, then withdrawn again). A
                // client presenting the serial from before both holds the same data as is served now, but not the
                // served version: it must be answered at once.
                let base = version_model(&mut rng, 5000 + round as u32);
                k += 1;
                if srv.install(&hooks, &base).is_err() { rep.inconclusive("update failed"); return }
                let v0 = u32::from(srv.history.read().serial());
                let mut plus = base.clone();
                plus.origins.insert(wide_origin(2 * (7000 + round as u32), 65101));
                if srv.install(&hooks, &plus).is_err() || srv.install(&hooks, &base).is_err() { rep.inconclusive("update failed"); return }
                let now = u32::from(srv.history.read().serial());
                if now != v0.wrapping_add(2) { rep.inconclusive("net-zero history did not advance the serial twice"); continue }
                let t = format!("/json-delta/notify?session={session}&serial={v0}");
                rep.eval();
                match http_request(http, "GET", &t, &[], None, Duration::from_secs(5)) {
                    Ok(r) => match notify_serial(&r) {
                        Some((_, s)) if s == now => rep.class("net-zero-history|immediate"),
                        other => rep.violation("C17/non-current-bad-answer", format!("{t}: answered {:?} (current {now})", other), json!({"target": t})),
                    },
                    Err(e) if e == "timeout" => rep.violation("C17/non-current-blocked/net-zero-history", format!("{t}: blocked although the served serial is {now} (the two updates since serial {v0} cancel each other, the version still differs)"), json!({"target": t, "served": now})),
                    Err(e) => rep.inconclusive(format!("notify http: {e}")),
                }
            }
            2 => {
                // Outdated / foreign / absent version: must answer at once.
                let targets = [
                    format!("/json-delta/notify?session={session}&serial={}", v.wrapping_sub(1)),
                    format!("/json-delta/notify?session={}&serial={v}", session + 1),
                    "/json-delta/notify".to_string(),
                ];
                for t in targets {
                    rep.eval();
                    match http_request(http, "GET", &t, &[], None, Duration::from_secs(5)) {
                        Ok(r) => match notify_serial(&r) {
                            Some((_, s)) if s == v => rep.class("non-current-version|immediate"),
                            other => rep.violation("C17/non-current-bad-answer", format!("{t}: answered {:?} (current {v})", other), json!({"target": t})),
                        },
                        Err(e) if e == "timeout" => rep.violation("C17/non-current-blocked", format!("{t}: blocked although presented version is not the served one"), json!({"target": t})),
                        Err(e) => rep.inconclusive(format!("notify http: {e}")),
                    }
                }
            }
            _ => {
                // Blocking case: must not answer while v is current; must answer after the update.
                let target = format!("/json-delta/notify?session={session}&serial={v}");
                let h = std::thread::spawn(move || http_request(http, "GET", &target, &[], None, Duration::from_secs(30)));
                std::thread::sleep(Duration::from_millis(150 + rng.below(200)));
                rep.eval();
                if h.is_finished() {
                    let r = h.join().unwrap();
                    rep.violation("C17/answered-while-current", format!("notify answered while the presented version {v} was still current: {:?}", r.map(|r| r.text())), json!({"round": round}));
                    continue
                }
                k += 1;
                if srv.install(&hooks, &version_model(&mut rng, k)).is_err() { rep.inconclusive("update failed"); return }
                let t1 = Instant::now();
                while t1.elapsed() < Duration::from_secs(10) && !h.is_finished() { std::thread::sleep(Duration::from_millis(2)); }
                if h.is_finished() {
                    match h.join().unwrap().ok().and_then(|r| notify_serial(&r)) {
                        Some((_, s)) if s == v + 1 => rep.class("blocking|released-by-update"),
                        other => rep.violation("C17/blocking-bad-answer", format!("blocking notify answered {:?}, expected serial {}", other, v + 1), json!({"round": round})),
                    }
                } else { rep.violation("C17/not-released-by-update", "subscribed notify request did not answer after the update", json!({"round": round})); }
            }
        }
    }
    rep.sample(json!({"scenario": "request parked at notify.before_subscribe, update+notify, release", "session": session}));
    Hooks::uninstall();
    let _ = BTreeMap::<u8, u8>::new();
}
