//! C13 (serial-based synchronisation exact or refused) and C14 (serial
//! advances once per change, retained history bounded) at the library
//! boundary: the real SharedHistory::update / PayloadSource::diff.

use std::collections::BTreeMap;
use std::time::Duration;
use serde_json::json;
use routinator::payload::SharedHistory;
use rpki::rtr::server::{PayloadDiff, PayloadSource};
use rpki::rtr::state::{Serial, State};
use crate::core::{Check, Ctx, Report, Rng};
use crate::hooks::Hooks;
use crate::pgen::{Model, fmt_action};
use crate::util::{base_config, install};

pub const C13: Check = Check {
    id: "C13",
    level: "exploration",
    rule: "histories of 1..40 updates (some without change) driven through the real SharedHistory::update \
           for history-size in {0,1,2,3,5,10}, sessions starting at serial 0, near 2^31 and near 2^32 \
           (wrap-around); after every update the client serials {every issued serial, window edges +-3, \
           current+1..3, current+-2^31(+-2), 0, u32::MAX, random} are presented via PayloadSource::diff \
           with the right and a foreign session. Oracle: harness keeps every installed version keyed by \
           serial; Some(delta) must come for an issued serial, be tagged with the current serial and turn \
           that version into the current one (model router); None is a violation for the current serial \
           and for the last history-size serials counted including the current one (lenient reading). \
           distinct = (history-size, start-class, outcome-class, distance-class) combinations observed",
    assumptions: &[
        "window reading: 'the last history-size serials' includes the current serial (current .. current-(K-1)); \
         the stricter reading (K serials behind current) is not demanded",
        "a session seeded at serial S (hook) is the state of a history whose last update produced S; serials \
         below S-1 count as never issued, serial 0 is not judged in seeded sessions",
    ],
    shards: |_| 16,
    watchdog: |t| Duration::from_secs(t.pick(300, 3600)),
    budget: |t| Duration::from_secs(t.pick(30, 300)),
    run: run_c13,
    crash_is_violation: false,
    finish: None,
};

fn start_serial(rng: &mut Rng, k: usize) -> (u32, &'static str) {
    match rng.usize(8) {
        0 | 1 => (0, "zero"),
        2 => (1 + rng.u32() % 3, "small"),
        3 => ((1u32 << 31).wrapping_add(rng.u32() % 5).wrapping_sub(2), "half"),
        4 => ((1u32 << 31).wrapping_sub(rng.u32() % 40), "below-half"),
        5 => (u32::MAX - (rng.u32() % (k as u32 + 4)), "wrap"),
        6 => (u32::MAX - (rng.u32() % 45), "wrap-far"),
        _ => (rng.u32(), "random"),
    }
}

struct Hist {
    history: SharedHistory,
    versions: BTreeMap<u32, Model>,
    first: u32,          // first serial installed by the harness in this session
    seeded: bool,
    current: u32,
    changes: u32,        // number of changing updates after the first data set
    k: usize,
}

fn query_set(h: &Hist, rng: &mut Rng) -> Vec<u32> {
    let c = h.current;
    let mut q = vec![c, c.wrapping_add(1), c.wrapping_add(2), c.wrapping_add(3),
        c.wrapping_add(1 << 31), c.wrapping_add((1 << 31) + 1), c.wrapping_add((1 << 31) - 1),
        c.wrapping_add((1 << 31) + 2), c.wrapping_add((1 << 31) - 2),
        c.wrapping_sub(1 << 31), 0, u32::MAX, h.first.wrapping_sub(1), h.first.wrapping_sub(2), h.first.wrapping_sub(3)];
    for j in 0..(h.k as u32 + 4) { q.push(c.wrapping_sub(j)); }
    let issued: Vec<u32> = h.versions.keys().cloned().collect();
    for s in issued.iter().rev().take(50) { q.push(*s) }
    for _ in 0..12 { q.push(rng.u32()) }
    for _ in 0..6 { q.push(c.wrapping_add(rng.u32() % 64).wrapping_sub(32)) }
    q.sort(); q.dedup();
    q
}

fn dist_class(c: u32, q: u32) -> &'static str {
    let d = c.wrapping_sub(q);
    if d == 0 { "current" }
    else if d == 1 << 31 { "half" }
    else if d < 64 { "behind-near" }
    else if d < 1 << 31 { "behind-far" }
    else if d > u32::MAX - 64 { "ahead-near" }
    else { "ahead-far" }
}

fn judge(h: &Hist, q: u32, start_class: &str, rep: &mut Report, trace: &serde_json::Value) {
    let read = h.history.read();
    let session = read.rtr_session();
    drop(read);
    let res = h.history.diff(State::from_parts(session, Serial(q)));
    rep.eval();
    let c = h.current;
    let replay = json!({"history": trace, "query_serial": q, "current": c, "history_size": h.k});
    let issued = h.versions.contains_key(&q);
    let dclass = dist_class(c, q);
    // serial 0 was the first serial of every real session; skip in seeded ones.
    let skip_refusal = h.seeded && q == 0;
    match res {
        Some((state, mut diff)) => {
            rep.class(format!("k{}|{}|some|{}", h.k, start_class, dclass));
            if !issued {
                if !skip_refusal {
                    let sig = if c.wrapping_sub(q) == 1 << 31 {
                        "C13/unknown-serial-not-refused/distance-2^31"
                    } else { "C13/unknown-serial-not-refused" };
                    rep.violation(sig, format!(
                        "serial {q} was never issued in this session (current {c}, issued {:?}..) but got a change set",
                        h.versions.keys().next()), replay);
                }
                return
            }
            if state.serial() != Serial(c) || state.session() != session {
                rep.violation("C13/tagged-serial", format!(
                    "change set for serial {q} tagged ({},{}) but current is ({session},{c})",
                    state.session(), state.serial()), replay.clone());
            }
            let mut m = h.versions[&q].clone();
            let mut acts = Vec::new();
            while let Some((p, a)) = diff.next() {
                acts.push(fmt_action(p, a));
                if let Err(e) = m.apply(p, a) {
                    rep.violation("C13/inapplicable-action", format!("from serial {q}: {e}; actions so far {:?}", acts), replay.clone());
                    return
                }
            }
            if q == c && !acts.is_empty() {
                rep.violation("C13/current-serial-nonempty", format!("client at current serial got actions {:?}", acts), replay.clone());
            }
            if m != h.versions[&c] {
                rep.violation("C13/wrong-delta", format!(
                    "change set from serial {q} does not turn that version into the current one (serial {c}); actions {:?}", acts), replay);
            }
        }
        None => {
            rep.class(format!("k{}|{}|none|{}", h.k, start_class, dclass));
            if q == c {
                rep.violation("C13/current-serial-refused", format!("client at current serial {c} was refused"), replay);
                return
            }
            // Required window (lenient reading): current-j for j in 1..K-1,
            // limited to serials the harness installed after the start.
            let behind = c.wrapping_sub(q);
            if issued && behind >= 1 && (behind as usize) < h.k && behind <= h.changes
                && q != h.first.wrapping_sub(1)
            {
                rep.violation("C13/window-serial-refused", format!(
                    "serial {q} is {behind} behind current {c} with history-size {} after {} changing updates but was refused",
                    h.k, h.changes), replay);
            }
        }
    }
    // Foreign session must always be refused.
    let foreign = session.wrapping_add(1);
    if h.history.diff(State::from_parts(foreign, Serial(q))).is_some() {
        rep.violation("C13/foreign-session-not-refused", format!("foreign session {foreign} with serial {q} got a change set"),
            json!({"history": trace, "query_serial": q}));
    }
}

fn run_c13(ctx: &mut Ctx, rep: &mut Report) {
    let hooks = Hooks::install();
    hooks.set_record(false);
    let mut rng = ctx.rng("hist");
    let cases = ctx.tier.pick(400u64, 6000);
    for case in 0..cases {
        if !ctx.time_left() { rep.note("time budget reached"); break }
        let k = *rng.pick(&[0usize, 1, 2, 3, 5, 10]);
        let (s0, sclass) = start_serial(&mut rng, k);
        let n = 1 + rng.usize(ctx.tier.pick(25, 40));
        let mut config = base_config(&ctx.scratch);
        config.history_size = k;
        let history = SharedHistory::from_config(&config);
        let mut trace = Vec::new();
        // First data set.
        let v0 = Model::rand(&mut rng);
        install(&history, &hooks, &config, &v0);
        let mut h = Hist { history, versions: BTreeMap::new(), first: 0, seeded: false, current: 0, changes: 0, k };
        if s0 != 0 {
            h.history.verif_seed_serial(Serial(s0));
            h.seeded = true;
            h.first = s0;
            h.current = s0;
            // The phantom empty delta claims version[s0-1] == version[s0].
            h.versions.insert(s0.wrapping_sub(1), v0.clone());
        }
        h.versions.insert(h.current, v0.clone());
        trace.push(json!({"start_serial": s0, "history_size": k, "v0": v0.fingerprint()}));
        ctx.begin_case(&json!({"case": case, "k": k, "s0": s0, "n": n}));
        let mut cur = v0;
        for step in 0..n {
            let next = if rng.chance(1, 5) { cur.clone() } else {
                let mut m = cur.mutate(&mut rng);
                if m == cur { m.origins.insert(crate::pgen::wide_origin(step as u32 + 1000, 65000)); }
                m
            };
            let changed = next != cur;
            let reported = install(&h.history, &hooks, &config, &next);
            let serial_now = h.history.read().serial();
            if changed {
                h.current = h.current.wrapping_add(1);
                h.changes += 1;
                h.versions.insert(h.current, next.clone());
            }
            trace.push(json!({"step": step, "changed": changed, "fp": next.fingerprint()}));
            if serial_now != Serial(h.current) || reported != changed {
                rep.violation("C13/serial-bookkeeping", format!(
                    "after step {step}: serial {} expected {}, update reported {reported} expected {changed}", serial_now, h.current),
                    json!({"history": trace}));
                break
            }
            cur = next;
            // Judge a query set at this state (every state in thorough, sampled in quick).
            if ctx.tier == crate::core::Tier::Thorough || rng.chance(1, 2) || step + 1 == n {
                let tr = json!(trace);
                for q in query_set(&h, &mut rng) {
                    judge(&h, q, sclass, rep, &tr);
                }
            }
        }
        if rep.samples.len() < 3 {
            rep.sample(json!({"history_size": k, "start_serial": s0, "updates": n, "trace_head": trace.iter().take(4).collect::<Vec<_>>()}));
        }
    }
    Hooks::uninstall();
}

//------------ C14 -----------------------------------------------------------

pub const C14: Check = Check {
    id: "C14",
    level: "exploration",
    rule: "random change/no-change update sequences (30..120 quick, 50..400 thorough) through the real \
           SharedHistory::update for history-size in {0,1,2,3,10,65535} taken from the config-file parser and \
           the command line parser; monitors after every update: serial == previous + (1 if data changed) with the \
           first data set at 0; retained change sets (hook count) <= max(history-size,1); hook-free cross-check: \
           number of distinct old serials that still obtain a change set <= max(history-size,1). \
           distinct = (history-size, source, change-pattern class) combinations",
    assumptions: &["'at least one' in the statement is read as bound max(history-size, 1)"],
    shards: |_| 16,
    watchdog: |t| Duration::from_secs(t.pick(300, 3600)),
    budget: |t| Duration::from_secs(t.pick(30, 300)),
    run: run_c14,
    crash_is_violation: false,
    finish: None,
};

fn config_with_history(ctx: &Ctx, k: usize, via: usize) -> Option<routinator::config::Config> {
    use routinator::config::Config;
    let mut base = base_config(&ctx.scratch);
    match via {
        0 => { base.history_size = k; Some(base) }
        1 => {
            // through the config file parser
            let path = ctx.scratch.join("c14.conf");
            std::fs::write(&path, format!(
                "repository-dir = \"{}\"\nhistory-size = {}\n", base.cache_dir.display(), k)).ok()?;
            let args = vec!["routinator".to_string(), "-c".into(), path.display().to_string(), "--no-rir-tals".into()];
            let m = Config::config_args(clap::Command::new("routinator")).try_get_matches_from(args).ok()?;
            Config::from_arg_matches(&m, &ctx.scratch).ok()
        }
        _ => {
            // through the command line (server args)
            let path = ctx.scratch.join("c14b.conf");
            std::fs::write(&path, format!("repository-dir = \"{}\"\n", base.cache_dir.display())).ok()?;
            let args = vec!["routinator".to_string(), "-c".into(), path.display().to_string(), "--no-rir-tals".into(),
                "--history".into(), k.to_string()];
            let app = Config::server_args(Config::config_args(clap::Command::new("routinator")));
            let m = app.try_get_matches_from(args).ok()?;
            let mut c = Config::from_arg_matches(&m, &ctx.scratch).ok()?;
            c.apply_server_arg_matches(&m, &ctx.scratch).ok()?;
            Some(c)
        }
    }
}

fn run_c14(ctx: &mut Ctx, rep: &mut Report) {
    let hooks = Hooks::install();
    hooks.set_record(false);
    let mut rng = ctx.rng("c14");
    let cases = ctx.tier.pick(120u64, 1500);
    for case in 0..cases {
        if !ctx.time_left() { rep.note("time budget reached"); break }
        let k = *rng.pick(&[0usize, 1, 2, 3, 10, 65535]);
        let via = rng.usize(3);
        let config = match config_with_history(ctx, k, via) {
            Some(c) => c,
            None => { rep.inconclusive(format!("could not build config with history-size {k} via {via}")); continue }
        };
        if config.history_size != k {
            rep.violation("C14/config-history-size", format!("history-size {k} read via {via} became {}", config.history_size), json!({"k": k, "via": via}));
            continue
        }
        let n = ctx.tier.pick(30, 50) + rng.usize(ctx.tier.pick(90, 350));
        let pattern = rng.usize(3); // 0 mostly-change, 1 mixed, 2 mostly-no-change
        ctx.begin_case(&json!({"case": case, "k": k, "via": via, "n": n}));
        let history = SharedHistory::from_config(&config);
        let mut cur = Model::rand(&mut rng);
        install(&history, &hooks, &config, &cur);
        let mut expect = 0u32;
        let bound = k.max(1);
        let mut flags = Vec::new();
        let mut ok = true;
        if history.read().serial() != Serial(0) {
            rep.violation("C14/first-serial", format!("first data set has serial {}", history.read().serial()), json!({"k": k}));
        }
        for step in 0..n {
            let change = match pattern { 0 => rng.chance(9, 10), 1 => rng.bool(), _ => rng.chance(1, 10) };
            let next = if change {
                let mut m = cur.mutate(&mut rng);
                if m == cur { m.origins.insert(crate::pgen::wide_origin(step as u32 + 5000, 65001)); }
                if m == cur { m.origins.clear(); }
                m
            } else { cur.clone() };
            let changed = next != cur;
            flags.push(changed as u8);
            install(&history, &hooks, &config, &next);
            cur = next;
            if changed { expect = expect.wrapping_add(1) }
            rep.eval();
            let serial = history.read().serial();
            if serial != Serial(expect) {
                rep.violation("C14/serial-step", format!("after step {step} (changed={changed}) serial is {serial}, expected {expect}"),
                    json!({"k": k, "flags": flags}));
                ok = false; break
            }
            let retained = history.verif_retained();
            rep.max("max_retained_seen", retained as u64);
            if retained > bound {
                let sig = if k == 0 { "C14/retained-exceeds-history-size/keep=0" } else { "C14/retained-exceeds-history-size" };
                rep.violation(sig, format!(
                    "{retained} change sets retained with history-size {k} after {} changing updates", expect),
                    json!({"k": k, "via": via, "flags": flags}));
                ok = false; break
            }
            // Hook-free cross-check every 16 steps: how many old serials are still served?
            if step % 16 == 15 {
                let session = history.read().rtr_session();
                let mut served = 0usize;
                for back in 1..=(expect.min(bound as u32 + 8).min(70000)) {
                    if history.diff(State::from_parts(session, Serial(expect.wrapping_sub(back)))).is_some() { served += 1 }
                }
                rep.max("max_old_serials_served", served as u64);
                if served > bound {
                    let sig = if k == 0 { "C14/retained-exceeds-history-size/keep=0" } else { "C14/served-window-exceeds-history-size" };
                    rep.violation(sig, format!("{served} old serials still obtain a change set with history-size {k}"),
                        json!({"k": k, "via": via, "flags": flags}));
                    ok = false; break
                }
            }
        }
        let _ = ok;
        rep.class(format!("k{}|via{}|pattern{}", k, via, pattern));
        if rep.samples.len() < 3 { let via_s = ["direct", "config-file", "command-line"][via]; rep.sample(json!({"history_size": k, "via": via_s, "changes": flags})); }
    }
    Hooks::uninstall();
}
