//! Supervisor / worker entry point.
//!
//!   rv <ID> quick|thorough [--replay FILE]
//!   rv worker <ID> <tier> <seed> <shard> <shards> <scratch> [replay]
//!   rv list

use std::path::PathBuf;
use rv::core::{supervise, worker_main, Tier};

rv::define_clock_shim!();

fn tier(s: &str) -> Tier {
    match s { "thorough" => Tier::Thorough, _ => Tier::Quick }
}

fn main() {
    let args: Vec<String> = std::env::args().collect();
    if args.len() < 2 { eprintln!("usage: rv <ID> quick|thorough [--replay FILE]"); std::process::exit(2) }
    if args[1] == "clock-test" { println!("clock shim active: {}", rv::clock::self_test()); return }
    if args[1] == "list" {
        for c in rv::props::all() { println!("{} {}", c.id, c.level) }
        return
    }
    if args[1] == "worker" {
        let check = rv::props::find(&args[2]).expect("unknown check");
        let replay = args.get(8).and_then(|p| std::fs::read(p).ok())
            .and_then(|d| serde_json::from_slice::<serde_json::Value>(&d).ok())
            .map(|v| v.get("replay").cloned().unwrap_or(v));
        let code = worker_main(check, tier(&args[3]), args[4].parse().unwrap(),
            args[5].parse().unwrap(), args[6].parse().unwrap(),
            &PathBuf::from(&args[7]), replay);
        std::process::exit(code)
    }
    if let Some(code) = rv::props::special(&args) { std::process::exit(code) }
    let check = match rv::props::find(&args[1]) {
        Some(c) => c,
        None => { eprintln!("unknown property {}", args[1]); std::process::exit(2) }
    };
    let t = tier(args.get(2).map(|s| s.as_str()).unwrap_or("quick"));
    let seed: u64 = std::env::var("VERIF_SEED").ok().and_then(|s| s.parse().ok()).unwrap_or(1);
    let replay = args.iter().position(|a| a == "--replay").and_then(|i| args.get(i + 1))
        .map(|p| {
            let v: serde_json::Value = serde_json::from_slice(&std::fs::read(p).expect("replay file")).expect("replay json");
            (PathBuf::from(p), v)
        });
    std::process::exit(supervise(check, t, seed, replay))
}
