//! `mirileg <ID> <seed> <scratch>`: one worker shard of a pure-Rust check,
//! meant to run under `cargo +nightly miri run` (no clock shim here).

use std::path::PathBuf;

fn main() {
    let args: Vec<String> = std::env::args().collect();
    if args.len() < 4 { eprintln!("usage: mirileg <ID> <seed> <scratch>"); std::process::exit(2) }
    let check = rv::props::find(&args[1]).expect("unknown check");
    let code = rv::core::worker_main(check, rv::core::Tier::Quick, args[2].parse().unwrap(), 0, 1, &PathBuf::from(&args[3]), None);
    std::process::exit(code)
}
