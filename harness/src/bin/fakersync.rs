//! Stand-in for rsync. Usage (as invoked by routinator):
//!   fakersync -h
//!   fakersync --ctrl DIR -rtO --delete rsync://host/module/ DEST/
//! Mirrors DIR/root/host/module into DEST (deleting extraneous files),
//! honours DIR/fail/host/module (exit status), DIR/delay_ms, DIR/stderr, and
//! appends {start,end,module,pid} (CLOCK_MONOTONIC ns) to DIR/log.jsonl.

use std::fs;
use std::io::Write;
use std::path::{Path, PathBuf};

fn mono_ns() -> u128 {
    let mut ts = libc::timespec { tv_sec: 0, tv_nsec: 0 };
    unsafe { libc::clock_gettime(libc::CLOCK_MONOTONIC, &mut ts); }
    ts.tv_sec as u128 * 1_000_000_000 + ts.tv_nsec as u128
}

fn mirror(src: &Path, dst: &Path) -> std::io::Result<()> {
    fs::create_dir_all(dst)?;
    let mut keep = std::collections::HashSet::new();
    if src.is_dir() {
        for e in fs::read_dir(src)? {
            let e = e?;
            let name = e.file_name();
            keep.insert(name.clone());
            let s = e.path();
            let d = dst.join(&name);
            if e.file_type()?.is_dir() {
                if d.is_file() { fs::remove_file(&d)?; }
                mirror(&s, &d)?;
            } else {
                if d.is_dir() { fs::remove_dir_all(&d)?; }
                let data = fs::read(&s)?;
                let same = fs::read(&d).map(|x| x == data).unwrap_or(false);
                if !same { fs::write(&d, data)?; }
            }
        }
    }
    for e in fs::read_dir(dst)? {
        let e = e?;
        if !keep.contains(&e.file_name()) {
            if e.file_type()?.is_dir() { fs::remove_dir_all(e.path())?; } else { fs::remove_file(e.path())?; }
        }
    }
    Ok(())
}

fn main() {
    let args: Vec<String> = std::env::args().skip(1).collect();
    if args.iter().any(|a| a == "-h") { println!("fakersync (rv harness)  --contimeout"); return }
    let start = mono_ns();
    let mut ctrl: Option<PathBuf> = None;
    let mut rest = Vec::new();
    let mut i = 0;
    while i < args.len() {
        if args[i] == "--ctrl" && i + 1 < args.len() { ctrl = Some(PathBuf::from(&args[i + 1])); i += 2; continue }
        if !args[i].starts_with('-') { rest.push(args[i].clone()); }
        i += 1;
    }
    let ctrl = match ctrl { Some(c) => c, None => { eprintln!("fakersync: no --ctrl"); std::process::exit(1) } };
    if rest.len() != 2 { eprintln!("fakersync: expected source and destination"); std::process::exit(1) }
    let source = &rest[0];
    let dest = PathBuf::from(&rest[1]);
    let module = source.trim_start_matches("rsync://").trim_end_matches('/').to_string();
    if let Ok(ms) = fs::read_to_string(ctrl.join("delay").join(&module)) {
        if let Ok(ms) = ms.trim().parse::<u64>() { std::thread::sleep(std::time::Duration::from_millis(ms)); }
    }
    else if let Ok(ms) = fs::read_to_string(ctrl.join("delay_ms")) {
        if let Ok(ms) = ms.trim().parse::<u64>() { std::thread::sleep(std::time::Duration::from_millis(ms)); }
    }
    if let Ok(text) = fs::read(ctrl.join("stderr")) { let _ = std::io::stderr().write_all(&text); }
    let lower_module = match module.split_once('/') { Some((h, rest)) => format!("{}/{}", h.to_ascii_lowercase(), rest), None => module.to_ascii_lowercase() };
    let fail = fs::read_to_string(ctrl.join("fail").join(&lower_module)).ok();
    let mut code = 0;
    match fail {
        Some(f) => { code = f.trim().parse::<i32>().unwrap_or(10); eprintln!("rsync: failed to connect to {module}: Connection refused (111)"); }
        None => {
            // host names are case-insensitive
            let lower = match module.split_once('/') { Some((h, rest)) => format!("{}/{}", h.to_ascii_lowercase(), rest), None => module.to_ascii_lowercase() };
            let src = ctrl.join("root").join(&lower);
            if !src.is_dir() { eprintln!("@ERROR: Unknown module '{module}'"); code = 5; }
            else if let Err(e) = mirror(&src, &dest) { eprintln!("fakersync: {e}"); code = 11; }
        }
    }
    let end = mono_ns();
    if let Ok(mut f) = fs::OpenOptions::new().create(true).append(true).open(ctrl.join("log.jsonl")) {
        let _ = f.write_all(format!("{{\"start\":{start},\"end\":{end},\"module\":\"{module}\",\"pid\":{},\"code\":{code}}}\n", std::process::id()).as_bytes());
    }
    std::process::exit(code)
}
