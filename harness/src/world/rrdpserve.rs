//! Publishing a world's RRDP-enabled repositories through the fake HTTPS
//! server.

use std::collections::BTreeMap;
use crate::net::https::FakeHttps;
use crate::net::rrdp::{Faults, RrdpServer};
use super::build::Published;
use super::spec::World;

#[derive(Default)]
pub struct RrdpServers {
    pub servers: BTreeMap<usize, RrdpServer>,
}

impl RrdpServers {
    /// Brings every RRDP repository of the world to the published state
    /// (one new serial per changed repository) and installs the documents.
    pub fn publish(&mut self, w: &World, p: &Published, fake: &FakeHttps, faults: &BTreeMap<usize, Faults>) {
        let repos: std::collections::BTreeSet<usize> = w.cas.iter().filter(|c| c.rrdp).map(|c| c.repo).collect();
        for r in repos {
            let host = w.host(r);
            let prefix = format!("rsync://{host}/");
            let objs: BTreeMap<String, Vec<u8>> = p.files.iter().filter(|(u, _)| u.starts_with(&prefix)).map(|(u, b)| (u.clone(), b.to_vec())).collect();
            let srv = self.servers.entry(r).or_insert_with(|| RrdpServer::new(&w.notify_host(r), 0xabc0 + r as u64));
            if srv.objects != objs { if srv.objects.is_empty() && srv.deltas.is_empty() { srv.objects = objs; srv.etag_counter += 1; } else { srv.update(objs); } }
            srv.install(fake, faults.get(&r).unwrap_or(&Faults::default()));
        }
    }
}
