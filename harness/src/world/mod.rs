//! Generator of complete RPKI worlds with an independent ground-truth
//! oracle, plus the fakes that serve them to the real engine.

pub mod build;
pub mod history;
pub mod keys;
pub mod oracle;
pub mod rrdpserve;
pub mod run;
pub mod spec;
