//! Ground-truth oracle: what a correct relying party must serve for a world
//! (computed from the model only; never calls validation code).

use std::collections::{BTreeMap, BTreeSet};
use std::net::{Ipv4Addr, Ipv6Addr};
use routinator::payload::PayloadSnapshot;
use super::spec::*;

#[derive(Clone, Copy, Debug, PartialEq, Eq)]
pub enum Filter { Reject, Warn, Accept }

#[derive(Clone, Debug)]
pub struct Policy {
    pub stale: Filter,
    pub unsafe_vrps: Filter,
    pub enable_bgpsec: bool,
    pub enable_aspa: bool,
    pub limit_v4: Option<u8>,
    pub limit_v6: Option<u8>,
    pub max_ca_depth: usize,
}

impl Default for Policy {
    fn default() -> Self {
        Policy { stale: Filter::Reject, unsafe_vrps: Filter::Accept, enable_bgpsec: true, enable_aspa: true, limit_v4: None, limit_v6: None, max_ca_depth: 32 }
    }
}

impl Policy {
    pub fn apply(&self, c: &mut routinator::config::Config) {
        use routinator::config::FilterPolicy as F;
        let f = |x: Filter| match x { Filter::Reject => F::Reject, Filter::Warn => F::Warn, Filter::Accept => F::Accept };
        c.stale = f(self.stale);
        c.unsafe_vrps = f(self.unsafe_vrps);
        c.enable_bgpsec = self.enable_bgpsec;
        c.enable_aspa = self.enable_aspa;
        c.limit_v4_len = self.limit_v4;
        c.limit_v6_len = self.limit_v6;
        c.max_ca_depth = self.max_ca_depth;
    }
}

/// An origin as (v4, bits, len, resolved max len, asn).
pub type Vrp = (bool, u128, u8, u8, u32);

pub fn fmt_vrp(v: &Vrp) -> String {
    let addr = if v.0 { Ipv4Addr::from((v.1 >> 96) as u32).to_string() } else { Ipv6Addr::from(v.1).to_string() };
    format!("{}/{}-{} AS{}", addr, v.2, v.3, v.4)
}

/// The payload one publication point version contributes when accepted.
#[derive(Clone, Debug, Default, PartialEq, Eq)]
pub struct CaPayload {
    pub vrps: BTreeSet<Vrp>,
    /// (asn, ec key index)
    pub keys: BTreeSet<(u32, usize)>,
    /// customer -> providers, one entry per ASPA object
    pub aspas: Vec<(u32, BTreeSet<u32>)>,
    pub children: Vec<usize>,
}

/// Is the object valid as an object of its (accepted) publication point?
pub fn object_valid(o: &Obj, now: Ts) -> bool {
    o.fault.is_none() && o.nb <= now && now <= o.na
}

/// Payload of a CA's publication point as published in `w` (if accepted).
pub fn point_payload(w: &World, ca: usize, now: Ts, pol: &Policy) -> CaPayload {
    point_payload_of(&w.cas[ca], now, pol)
}

/// Payload of a publication point version given by its spec.
pub fn point_payload_of(ca: &Ca, now: Ts, pol: &Policy) -> CaPayload {
    let mut p = CaPayload::default();
    for o in &ca.objects {
        if !object_valid(o, now) { continue }
        match &o.kind {
            ObjKind::Roa { asn, prefixes } => {
                for x in prefixes {
                    let lim = if x.v4 { pol.limit_v4 } else { pol.limit_v6 };
                    if let Some(l) = lim { if x.len > l { continue } }
                    p.vrps.insert((x.v4, x.bits, x.len, x.max.unwrap_or(x.len), *asn));
                }
            }
            ObjKind::Aspa { customer, providers } => {
                if pol.enable_aspa { p.aspas.push((*customer, providers.iter().cloned().collect())); }
            }
            ObjKind::Router { asns, ec } => {
                if pol.enable_bgpsec { for a in asns { p.keys.insert((*a, *ec)); } }
            }
            ObjKind::ChildCa(c) => p.children.push(*c),
            ObjKind::Gbr | ObjKind::Unknown => {}
        }
    }
    p
}

/// Is the publication point, as fetched from `w`, complete and valid?
pub fn fetched_point_usable(w: &World, ca: usize, pol: &Policy) -> bool {
    let c = &w.cas[ca];
    if c.unreachable { return false }
    c.point_faults.iter().all(|f| f.stale_only() && pol.stale != Filter::Reject)
}

#[derive(Clone, Debug, Default)]
pub struct Expected {
    /// CAs whose publication point was processed and accepted.
    pub accepted: BTreeSet<usize>,
    /// CAs that were reached (certificate valid) but whose point was rejected.
    pub rejected: BTreeSet<usize>,
    /// CAs never reached (invalid certificate, depth, loop, ancestor rejected, TA unusable).
    pub unreached: BTreeSet<usize>,
    pub per_ca: BTreeMap<usize, CaPayload>,
    pub vrps: BTreeSet<Vrp>,
    pub unsafe_dropped: BTreeSet<Vrp>,
    pub keys: BTreeSet<(u32, usize)>,
    pub aspas: BTreeMap<u32, BTreeSet<u32>>,
}

pub fn ta_usable(w: &World, tal: usize) -> bool {
    w.tals[tal].uris.iter().any(|s| *s == TaState::Good)
}

fn walk(
    w: &World, ca: usize, now: Ts, pol: &Policy, depth: usize, chain_keys: &[usize],
    point: &dyn Fn(usize) -> Option<CaPayload>, e: &mut Expected,
) {
    match point(ca) {
        None => { e.rejected.insert(ca); }
        Some(p) => {
            e.accepted.insert(ca);
            let mut keys = chain_keys.to_vec();
            keys.push(w.cas[ca].key);
            for child in &p.children {
                let ck = w.cas[*child].key;
                if depth + 1 > pol.max_ca_depth || keys.contains(&ck) { continue }
                walk(w, *child, now, pol, depth + 1, &keys, point, e);
            }
            e.per_ca.insert(ca, p);
        }
    }
}

/// Expected outcome of a run where every CA's effective publication point is
/// given by `point` (None = no usable version -> rejected).
pub fn expect_with(w: &World, now: Ts, pol: &Policy, ta_ok: &dyn Fn(usize) -> bool, point: &dyn Fn(usize) -> Option<CaPayload>) -> Expected {
    let mut e = Expected::default();
    for (t, tal) in w.tals.iter().enumerate() {
        if !ta_ok(t) { continue }
        walk(w, tal.root, now, pol, 0, &[], point, &mut e);
    }
    for c in 0..w.cas.len() {
        if !e.accepted.contains(&c) && !e.rejected.contains(&c) { e.unreached.insert(c); }
    }
    // Compose.
    // a whole-family resource of a rejected CA is not recorded (it would reject everything); its specific blocks of
    // the other family are
    let (rejected_v4, rejected_v6) = rejected_blocks_of(w, &e.rejected);
    for p in e.per_ca.values() {
        for v in &p.vrps {
            let hit = (if v.0 { &rejected_v4 } else { &rejected_v6 }).iter().any(|b| {
                let (bits, len) = if v.0 { block_v4(*b) } else { block_v6(*b) };
                overlaps(v.1, v.2, bits, len)
            });
            if hit && pol.unsafe_vrps == Filter::Reject { e.unsafe_dropped.insert(*v); } else { e.vrps.insert(*v); }
        }
        e.keys.extend(p.keys.iter().cloned());
        for (c, prov) in &p.aspas { e.aspas.entry(*c).or_default().extend(prov.iter().cloned()); }
    }
    e.aspas.retain(|_, p| p.len() <= 16380);
    e
}

/// Block indices recorded as rejected resources, per address family.
pub fn rejected_blocks_of(w: &World, rejected: &BTreeSet<usize>) -> (BTreeSet<usize>, BTreeSet<usize>) {
    let (mut v4, mut v6) = (BTreeSet::new(), BTreeSet::new());
    for r in rejected {
        if !w.whole_family(*r, true) { v4.extend(w.blocks(*r)); }
        if !w.whole_family(*r, false) { v6.extend(w.blocks(*r)); }
    }
    (v4, v6)
}

pub fn overlaps(a: u128, alen: u8, b: u128, blen: u8) -> bool {
    let l = alen.min(blen);
    if l == 0 { return true }
    let m = u128::MAX << (128 - l as u32);
    (a & m) == (b & m)
}

/// Expected outcome of a single run on a fresh cache.
pub fn expect_fresh(w: &World, now: Ts, pol: &Policy) -> Expected {
    expect_with(w, now, pol, &|t| ta_usable(w, t) && w.tals[t].ta_nb <= now && now <= w.tals[t].ta_na,
        &|ca| if fetched_point_usable(w, ca, pol) { Some(point_payload(w, ca, now, pol)) } else { None })
}

//------------ Observed side -------------------------------------------------

#[derive(Clone, Debug, Default, PartialEq, Eq)]
pub struct Observed {
    pub vrps: BTreeSet<Vrp>,
    /// (asn, hex of key info)
    pub keys: BTreeSet<(u32, String)>,
    pub aspas: BTreeMap<u32, BTreeSet<u32>>,
}

pub fn observe(s: &PayloadSnapshot) -> Observed {
    let mut o = Observed::default();
    for (r, _) in s.origins() {
        let (v4, bits) = crate::pgen::ip_bits(r.prefix.addr());
        o.vrps.insert((v4, bits, r.prefix.prefix_len(), r.prefix.resolved_max_len(), r.asn.into_u32()));
    }
    for (k, _) in s.router_keys() { o.keys.insert((k.asn.into_u32(), crate::pgen::hex(k.key_info.as_slice()))); }
    for (a, _) in s.aspas() { o.aspas.insert(a.customer.into_u32(), a.providers.iter().map(|p| p.into_u32()).collect()); }
    o
}

/// Compares observed with expected. Returns (surplus, missing) descriptions.
pub fn compare(e: &Expected, o: &Observed, ec_hex: &[String]) -> (Vec<String>, Vec<String>) {
    let mut surplus = Vec::new();
    let mut missing = Vec::new();
    for v in o.vrps.difference(&e.vrps) { surplus.push(format!("vrp {}", fmt_vrp(v))); }
    for v in e.vrps.difference(&o.vrps) { missing.push(format!("vrp {}", fmt_vrp(v))); }
    let ek: BTreeSet<(u32, String)> = e.keys.iter().map(|(a, k)| (*a, ec_hex[*k].clone())).collect();
    for k in o.keys.difference(&ek) { surplus.push(format!("router key AS{} {}", k.0, &k.1[..16.min(k.1.len())])); }
    for k in ek.difference(&o.keys) { missing.push(format!("router key AS{} {}", k.0, &k.1[..16.min(k.1.len())])); }
    for (c, p) in &o.aspas {
        match e.aspas.get(c) {
            None => surplus.push(format!("aspa AS{c} {:?}", p)),
            Some(ep) if ep != p => { surplus.push(format!("aspa AS{c} has providers {:?}, expected {:?}", p, ep)); }
            _ => {}
        }
    }
    for (c, p) in &e.aspas { if !o.aspas.contains_key(c) { missing.push(format!("aspa AS{c} {:?}", p)); } }
    (surplus, missing)
}

/// Which CA does a described item belong to (by the AS block scheme)?
pub fn item_ca(desc: &str) -> Option<usize> {
    let pos = desc.rfind("AS")?;
    let digits: String = desc[pos + 2..].chars().take_while(|c| c.is_ascii_digit()).collect();
    asn_block(digits.parse().ok()?)
}
