//! Turning a world spec into signed objects and publication content.

use std::collections::{BTreeMap, HashMap};
use std::net::{IpAddr, Ipv4Addr, Ipv6Addr};
use std::str::FromStr;
use bytes::Bytes;
use chrono::{TimeZone, Utc};
use rpki::crypto::{DigestAlgorithm, PublicKey, RpkiSignatureAlgorithm};
use rpki::repository::aspa::AspaBuilder;
use rpki::repository::cert::{ExtendedKeyUsage, KeyUsage, Overclaim, TbsCert};
use rpki::repository::crl::{CrlEntry, TbsCertList};
use rpki::repository::manifest::{FileAndHash, ManifestContent};
use rpki::repository::resources::{Addr, Prefix as ResPrefix};
use rpki::repository::roa::RoaBuilder;
use rpki::repository::sigobj::SignedObjectBuilder;
use rpki::repository::x509::{Serial, Time, Validity};
use rpki::resources::Asn;
use rpki::uri;
use crate::core::Rng;
use super::keys::{PoolSigner, CA_KEYS};
use super::spec::*;

pub fn time(ts: Ts) -> Time { Time::new(Utc.timestamp_opt(ts, 0).single().expect("valid timestamp")) }
fn rsync(s: &str) -> uri::Rsync { uri::Rsync::from_str(s).unwrap_or_else(|e| panic!("bad rsync uri {s}: {e}")) }

/// Everything that is published for one world version.
#[derive(Clone, Debug, Default)]
pub struct Published {
    /// rsync URI -> content.
    pub files: BTreeMap<String, Bytes>,
    /// Modules ("host/module") whose rsync fetch fails.
    pub failing_modules: Vec<String>,
    /// TAL file name (without extension) -> content.
    pub tals: Vec<(String, String)>,
}

pub struct Builder {
    pub signer: PoolSigner,
    cache: HashMap<String, Bytes>,
    pub built: u64,
    pub reused: u64,
}

fn garbage(seed: &str, n: usize) -> Bytes {
    let mut r = Rng::derive(7, seed, 0);
    Bytes::from(r.bytes(n))
}

fn flip_tail(b: &Bytes) -> Bytes {
    let mut v = b.to_vec();
    let n = v.len();
    v[n - 5] ^= 0x5a;
    Bytes::from(v)
}

impl Builder {
    pub fn new() -> Result<Self, String> {
        Ok(Builder { signer: PoolSigner::load()?, cache: HashMap::new(), built: 0, reused: 0 })
    }

    fn cached(&mut self, key: String, f: impl FnOnce(&PoolSigner) -> Bytes) -> Bytes {
        if let Some(b) = self.cache.get(&key) { self.reused += 1; return b.clone() }
        let b = f(&self.signer);
        self.built += 1;
        if self.cache.len() > 20_000 { self.cache.clear(); }
        self.cache.insert(key, b.clone());
        b
    }

    fn set_resources(cert: &mut TbsCert, blocks: &[usize], extra_v4: Option<(u128, u8)>) {
        Self::set_resources_slash0(cert, blocks, extra_v4, false, false)
    }

    /// `all_v4` / `all_v6`: the certificate holds the whole address family instead of the blocks.
    fn set_resources_slash0(cert: &mut TbsCert, blocks: &[usize], extra_v4: Option<(u128, u8)>, all_v4: bool, all_v6: bool) {
        cert.build_v4_resource_blocks(|b| {
            if all_v4 { b.push(ResPrefix::new(Addr::from_bits(0), 0)); return }
            for i in blocks { let (bits, len) = block_v4(*i); b.push(ResPrefix::new(Addr::from_bits(bits), len)); }
            if let Some((bits, len)) = extra_v4 { b.push(ResPrefix::new(Addr::from_bits(bits), len)); }
        });
        cert.build_v6_resource_blocks(|b| {
            if all_v6 { b.push(ResPrefix::new(Addr::from_bits(0), 0)); return }
            for i in blocks { let (bits, len) = block_v6(*i); b.push(ResPrefix::new(Addr::from_bits(bits), len)); }
        });
        cert.build_as_resource_blocks(|b| {
            for i in blocks { let (lo, hi) = block_as(*i); b.push((Asn::from_u32(lo), Asn::from_u32(hi))); }
        });
    }

    /// The (self-signed) TA certificate of a TAL, signed and keyed by `key`.
    pub fn ta_cert(&mut self, w: &World, tal: usize, key: usize, nb: Ts, na: Ts) -> Bytes {
        let root = w.tals[tal].root;
        let blocks = w.blocks(root);
        let slash0 = (w.whole_family(root, true), w.whole_family(root, false));
        let k = format!("ta|{tal}|{key}|{nb}|{na}|{:?}|{}|{}|{slash0:?}|{}", blocks, w.ca_repository(root), w.cas[root].rrdp, w.notify_host(w.cas[root].repo));
        let (repo, mft, notify) = (w.ca_repository(root), w.manifest_uri(root), if w.cas[root].rrdp { Some(w.notify_uri(w.cas[root].repo)) } else { None });
        self.cached(k, |s| {
            let pk = s.public(key).clone();
            let mut cert = TbsCert::new(Serial::from(1u64), pk.to_subject_name(), Validity::new(time(nb), time(na)), None, pk, KeyUsage::Ca, Overclaim::Refuse);
            cert.set_basic_ca(Some(true));
            cert.set_ca_repository(Some(rsync(&repo)));
            cert.set_rpki_manifest(Some(rsync(&mft)));
            if let Some(n) = notify { cert.set_rpki_notify(Some(uri::Https::from_str(&n).unwrap())); }
            Self::set_resources_slash0(&mut cert, &blocks, None, slash0.0, slash0.1);
            cert.into_cert(s, &key).expect("sign ta").to_captured().into_bytes()
        })
    }

    fn child_ca_cert(&mut self, w: &World, parent: usize, o: &Obj, child: usize) -> Bytes {
        let blocks = w.blocks(child);
        let pkey = w.cas[parent].key;
        let ckey = w.cas[child].key;
        let sign_key = if o.fault == Some(Fault::ForeignKey) { (pkey + 1) % CA_KEYS } else { pkey };
        let crl = if o.fault == Some(Fault::WrongCrlDp) { format!("{}other.crl", w.ca_repository(parent)) } else { w.crl_uri(parent) };
        let issuer_cert_uri = w.cert_uri(parent).unwrap_or_else(|| w.ta_uri(w.cas[parent].tal, 0));
        let (repo, mft) = (w.ca_repository(child), w.manifest_uri(child));
        let notify = if w.cas[child].rrdp { Some(w.notify_uri(w.cas[child].repo)) } else { None };
        let extra = if o.fault == Some(Fault::Overclaim) { Some(((((172u32 << 24) | (16 << 16) | ((child as u32 & 0xff) << 8)) as u128) << 96, 24)) } else { None };
        let slash0 = (w.whole_family(child, true), w.whole_family(child, false));
        let k = format!("cacert|{parent}|{child}|{pkey}|{ckey}|{sign_key}|{}|{}|{}|{:?}|{:?}|{crl}|{repo}|{:?}|{}|{slash0:?}", o.serial, o.nb, o.na, blocks, extra, notify, o.salt);
        let (serial, nb, na) = (o.serial, o.nb, o.na);
        let b = self.cached(k, |s| {
            let ppk = s.public(pkey).clone();
            let cpk = s.public(ckey).clone();
            let mut cert = TbsCert::new(Serial::from(serial), ppk.to_subject_name(), Validity::new(time(nb), time(na)), None, cpk, KeyUsage::Ca, Overclaim::Refuse);
            cert.set_basic_ca(Some(true));
            cert.set_authority_key_identifier(Some(ppk.key_identifier()));
            cert.set_crl_uri(Some(rsync(&crl)));
            cert.set_ca_issuer(Some(rsync(&issuer_cert_uri)));
            cert.set_ca_repository(Some(rsync(&repo)));
            cert.set_rpki_manifest(Some(rsync(&mft)));
            if let Some(n) = notify { cert.set_rpki_notify(Some(uri::Https::from_str(&n).unwrap())); }
            Self::set_resources_slash0(&mut cert, &blocks, extra, slash0.0, slash0.1);
            cert.into_cert(s, &sign_key).expect("sign ca").to_captured().into_bytes()
        });
        if o.fault == Some(Fault::BadSignature) { flip_tail(&b) } else { b }
    }

    fn sigobj(w: &World, ca: usize, o: &Obj) -> SignedObjectBuilder {
        let crl = if o.fault == Some(Fault::WrongCrlDp) { format!("{}other.crl", w.ca_repository(ca)) } else { w.crl_uri(ca) };
        let issuer_cert_uri = w.cert_uri(ca).unwrap_or_else(|| w.ta_uri(w.cas[ca].tal, 0));
        let mut b = SignedObjectBuilder::new(Serial::from(o.serial), Validity::new(time(o.nb), time(o.na)), rsync(&crl), rsync(&issuer_cert_uri), rsync(&w.object_uri(ca, o)));
        b.set_signing_time(time(o.nb + 1 + o.salt as i64));
        b
    }

    /// Bytes of one (non-CA-cert) object.
    pub fn object(&mut self, w: &World, ca: usize, o: &Obj) -> Bytes {
        if o.fault == Some(Fault::Garbage) { return garbage(&format!("{}|{}", w.object_uri(ca, o), o.salt), 180) }
        if let ObjKind::ChildCa(child) = o.kind { return self.child_ca_cert(w, ca, o, child) }
        let key = w.cas[ca].key;
        let sign_key = if o.fault == Some(Fault::ForeignKey) { (key + 1) % CA_KEYS } else { key };
        let k = format!("obj|{ca}|{key}|{sign_key}|{:?}|{}|{}", o, w.ca_repository(ca), w.cert_uri(ca).unwrap_or_default());
        let overclaim = o.fault == Some(Fault::Overclaim);
        let sig = Self::sigobj(w, ca, o);
        let o2 = o.clone();
        let crl_uri = if o.fault == Some(Fault::WrongCrlDp) { format!("{}other.crl", w.ca_repository(ca)) } else { w.crl_uri(ca) };
        let issuer_cert_uri = w.cert_uri(ca).unwrap_or_else(|| w.ta_uri(w.cas[ca].tal, 0));
        let b = self.cached(k, move |s| {
            match &o2.kind {
                ObjKind::Roa { asn, prefixes } => {
                    let mut rb = RoaBuilder::new(Asn::from_u32(*asn));
                    for p in prefixes {
                        let addr: IpAddr = if p.v4 { Ipv4Addr::from((p.bits >> 96) as u32).into() } else { Ipv6Addr::from(p.bits).into() };
                        rb.push_addr(addr, p.len, p.max);
                    }
                    if overclaim { rb.push_addr(Ipv4Addr::new(192, 168, ca as u8, 0).into(), 24, None); }
                    rb.finalize(sig, s, &sign_key).expect("sign roa").to_captured().into_bytes()
                }
                ObjKind::Aspa { customer, providers } => {
                    let c = if overclaim { 4_200_000_000 + ca as u32 } else { *customer };
                    let ab = AspaBuilder::new(Asn::from_u32(c), providers.iter().map(|p| Asn::from_u32(*p)).collect::<Vec<_>>()).expect("aspa providers");
                    ab.finalize(sig, s, &sign_key).expect("sign aspa").to_captured().into_bytes()
                }
                ObjKind::Router { asns, ec } => {
                    let ipk = s.public(key).clone();
                    let rpk: PublicKey = s.ec_pubs[*ec].clone();
                    let mut cert = TbsCert::new(Serial::from(o2.serial), ipk.to_subject_name(), Validity::new(time(o2.nb), time(o2.na)), None, rpk, KeyUsage::Ee, Overclaim::Refuse);
                    cert.set_authority_key_identifier(Some(ipk.key_identifier()));
                    cert.set_extended_key_usage(Some(ExtendedKeyUsage::create_router()));
                    cert.set_crl_uri(Some(rsync(&crl_uri)));
                    cert.set_ca_issuer(Some(rsync(&issuer_cert_uri)));
                    cert.build_as_resource_blocks(|b| {
                        for a in asns { b.push(Asn::from_u32(*a)); }
                        if overclaim { b.push(Asn::from_u32(4_200_000_000 + ca as u32)); }
                    });
                    cert.into_cert(s, &sign_key).expect("sign router").to_captured().into_bytes()
                }
                ObjKind::Gbr => {
                    let mut sig = sig;
                    sig.set_v4_resources_inherit(); sig.set_v6_resources_inherit(); sig.set_as_resources_inherit();
                    let vcard = Bytes::from_static(b"BEGIN:VCARD\r\nVERSION:4.0\r\nFN:rv\r\nEND:VCARD\r\n");
                    let oid = bcder::Oid(Bytes::from_static(&[42, 134, 72, 134, 247, 13, 1, 9, 16, 1, 35]));
                    { use bcder::encode::Values; sig.finalize(oid, vcard, s, &sign_key).expect("sign gbr").encode_ref().to_captured(bcder::Mode::Der).into_bytes() }
                }
                ObjKind::Unknown => Bytes::from(format!("unknown object {} salt {}", o2.name, o2.salt)),
                ObjKind::ChildCa(_) => unreachable!(),
            }
        });
        if o.fault == Some(Fault::BadSignature) && !matches!(o.kind, ObjKind::Unknown) { flip_tail(&b) } else { b }
    }

    fn crl(&mut self, w: &World, ca: usize, number_bump: u64) -> Bytes {
        let c = &w.cas[ca];
        if c.point_faults.contains(&PointFault::CrlGarbage) { return garbage(&format!("crl{}", w.crl_uri(ca)), 150) }
        let mut revoked: Vec<u64> = c.objects.iter().filter(|o| o.fault == Some(Fault::Revoked)).map(|o| o.serial).collect();
        if c.point_faults.contains(&PointFault::MftEeRevoked) { revoked.push(c.mft_serial); }
        revoked.extend(c.also_revoked.iter().cloned().filter(|r| !c.objects.iter().any(|o| o.serial == *r)));
        revoked.sort();
        let key = c.key;
        let (this, next, number) = (c.crl_this, c.crl_next, c.mft_number + number_bump);
        let k = format!("crl|{ca}|{key}|{this}|{next}|{number}|{:?}", revoked);
        let b = self.cached(k, move |s| {
            let pk = s.public(key).clone();
            let entries: Vec<CrlEntry> = revoked.iter().map(|r| CrlEntry::new(Serial::from(*r), time(this - 60))).collect();
            TbsCertList::new(RpkiSignatureAlgorithm::default(), pk.to_subject_name(), time(this), time(next), entries, pk.key_identifier(), Serial::from(number))
                .into_crl(s, &key).expect("sign crl").to_captured().into_bytes()
        });
        if c.point_faults.contains(&PointFault::CrlBadSignature) { flip_tail(&b) } else { b }
    }

    /// Publishes one CA's publication point into `out`.
    pub fn publish_ca(&mut self, w: &World, ca: usize, out: &mut Published) {
        let c = w.cas[ca].clone();
        let sha = DigestAlgorithm::sha256();
        let mut listed: Vec<(String, Bytes)> = Vec::new(); // (file name, hash)
        for (i, o) in c.objects.iter().enumerate() {
            let bytes = self.object(w, ca, o);
            let unlisted = o.fault == Some(Fault::Unlisted);
            let mut publish = Some(bytes.clone());
            if !unlisted {
                if c.fault_target == i && c.point_faults.contains(&PointFault::MissingFile) { publish = None; }
                if c.fault_target == i && c.point_faults.contains(&PointFault::WrongHash) {
                    // publish different (otherwise fine) bytes under the listed name
                    let mut o2 = o.clone(); o2.salt += 1000;
                    let other = self.object(w, ca, &o2);
                    publish = Some(if other == bytes { Bytes::from([bytes.as_ref(), b"x"].concat()) } else { other });
                }
                listed.push((o.name.clone(), Bytes::copy_from_slice(sha.digest(&bytes).as_ref())));
            }
            if let Some(p) = publish { out.files.insert(w.object_uri(ca, o), p); }
        }
        // CRL
        let crl = self.crl(w, ca, 0);
        let crl_name = format!("ca{ca}.crl");
        if !c.point_faults.contains(&PointFault::CrlNotListed) {
            listed.push((crl_name.clone(), Bytes::copy_from_slice(sha.digest(&crl).as_ref())));
        }
        if c.point_faults.contains(&PointFault::CrlWrongHash) {
            let other = self.crl(w, ca, 7);
            out.files.insert(w.crl_uri(ca), if other == crl { Bytes::from([crl.as_ref(), b"x"].concat()) } else { other });
        }
        else if !c.point_faults.contains(&PointFault::CrlMissing) {
            out.files.insert(w.crl_uri(ca), crl);
        }
        // Manifest
        if c.point_faults.contains(&PointFault::MftAbsent) { return }
        if c.point_faults.contains(&PointFault::MftGarbage) { out.files.insert(w.manifest_uri(ca), garbage(&w.manifest_uri(ca), 170)); return }
        let key = c.key;
        let sign_key = if c.point_faults.contains(&PointFault::MftForeignKey) { (key + 1) % CA_KEYS } else { key };
        let k = format!("mft|{ca}|{key}|{sign_key}|{}|{}|{}|{}|{}|{}|{:?}|{}", c.mft_number, c.mft_this, c.mft_next, c.mft_ee_nb, c.mft_ee_na, c.mft_serial,
            listed.iter().map(|l| (l.0.clone(), crate::pgen::hex(&l.1[..6]))).collect::<Vec<_>>(), w.cert_uri(ca).unwrap_or_default());
        let crl_uri = w.crl_uri(ca);
        let issuer_cert_uri = w.cert_uri(ca).unwrap_or_else(|| w.ta_uri(c.tal, 0));
        let mft_uri = w.manifest_uri(ca);
        let c2 = c.clone();
        let b = self.cached(k, move |s| {
            let content = ManifestContent::new(Serial::from(c2.mft_number), time(c2.mft_this), time(c2.mft_next), DigestAlgorithm::sha256(),
                listed.iter().map(|(n, h)| FileAndHash::new(Bytes::from(n.clone()), h.clone())));
            let mut sig = SignedObjectBuilder::new(Serial::from(c2.mft_serial), Validity::new(time(c2.mft_ee_nb), time(c2.mft_ee_na)), rsync(&crl_uri), rsync(&issuer_cert_uri), rsync(&mft_uri));
            sig.set_signing_time(time(c2.mft_this));
            content.into_manifest(sig, s, &sign_key).expect("sign mft").to_captured().into_bytes()
        });
        let b = if c.point_faults.contains(&PointFault::MftBadSignature) { flip_tail(&b) } else { b };
        out.files.insert(w.manifest_uri(ca), b);
    }

    /// Builds everything published for the world.
    pub fn publish(&mut self, w: &World) -> Published {
        let mut out = Published::default();
        for (t, tal) in w.tals.iter().enumerate() {
            let root_key = w.cas[tal.root].key;
            let mut text = String::new();
            for (n, st) in tal.uris.iter().enumerate() {
                let uri = w.ta_uri(t, n);
                text.push_str(&uri); text.push('\n');
                match st {
                    TaState::Good => { let b = self.ta_cert(w, t, root_key, tal.ta_nb, tal.ta_na); out.files.insert(uri, b); }
                    TaState::WrongKey => { let b = self.ta_cert(w, t, (root_key + 5) % CA_KEYS, tal.ta_nb, tal.ta_na); out.files.insert(uri, b); }
                    TaState::Garbage => { out.files.insert(uri.clone(), garbage(&uri, 300)); }
                    TaState::Expired => { let b = self.ta_cert(w, t, root_key, w.now - 10 * YEAR, w.now - DAY); out.files.insert(uri, b); }
                    TaState::NotYetValid => { let b = self.ta_cert(w, t, root_key, w.now + 3600, w.now + 10 * YEAR); out.files.insert(uri, b); }
                    TaState::Unreachable => { out.failing_modules.push(format!("ta{t}u{n}.rpki.test/ta")); }
                }
            }
            text.push('\n');
            let info = self.signer.public(root_key).to_info_bytes();
            let b64 = rpki::util::base64::Xml.encode(&info);
            for chunk in b64.as_bytes().chunks(64) { text.push_str(std::str::from_utf8(chunk).unwrap()); text.push('\n'); }
            out.tals.push((tal.name.clone(), text));
        }
        for ca in 0..w.cas.len() {
            if w.cas[ca].alias_of.is_some() { continue }
            self.publish_ca(w, ca, &mut out);
            if w.cas[ca].unreachable {
                let m = format!("{}/repo", w.host(w.cas[ca].repo));
                if !out.failing_modules.contains(&m) { out.failing_modules.push(m); }
            }
        }
        out
    }
}
