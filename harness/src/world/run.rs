//! Serving a published world through the fake rsync and running the real
//! engine against it.

use std::path::{Path, PathBuf};
use routinator::config::Config;
use routinator::engine::Engine;
use routinator::error::RunFailed;
use routinator::metrics::Metrics;
use routinator::payload::{PayloadSnapshot, ValidationReport};
use routinator::slurm::LocalExceptions;
use super::build::Published;

/// A scratch environment: cache dir, TAL dir, fake-rsync control dir.
pub struct Env {
    pub dir: PathBuf,
    pub ctrl: PathBuf,
    pub config: Config,
}

pub fn fakersync_path() -> PathBuf {
    let exe = std::env::current_exe().expect("current exe");
    exe.parent().unwrap().join("fakersync")
}

impl Env {
    pub fn new(dir: &Path) -> Self {
        let _ = std::fs::remove_dir_all(dir);
        std::fs::create_dir_all(dir).expect("env dir");
        let ctrl = dir.join("ctrl");
        std::fs::create_dir_all(ctrl.join("root")).unwrap();
        std::fs::create_dir_all(ctrl.join("fail")).unwrap();
        let mut config = crate::util::base_config(dir);
        config.rsync_command = fakersync_path().display().to_string();
        config.rsync_args = Some(vec!["--ctrl".into(), ctrl.display().to_string()]);
        config.disable_rrdp = true;
        config.validation_threads = 2;
        config.enable_aspa = true;
        config.enable_bgpsec = true;
        Env { dir: dir.to_path_buf(), ctrl, config }
    }

    /// Replaces what the fake rsync serves with `p` and installs the TALs.
    pub fn serve(&self, p: &Published) {
        let root = self.ctrl.join("root");
        let _ = std::fs::remove_dir_all(&root);
        std::fs::create_dir_all(&root).unwrap();
        for (uri, data) in &p.files {
            let rel = uri.trim_start_matches("rsync://");
            // host names are case-insensitive: the fake serves them under their lower-case form
            let rel = match rel.split_once('/') { Some((h, rest)) => format!("{}/{}", h.to_ascii_lowercase(), rest), None => rel.to_string() };
            let path = root.join(rel);
            std::fs::create_dir_all(path.parent().unwrap()).unwrap();
            std::fs::write(&path, data).unwrap();
        }
        // Modules that exist but are empty still need their directory.
        let fail = self.ctrl.join("fail");
        let _ = std::fs::remove_dir_all(&fail);
        std::fs::create_dir_all(&fail).unwrap();
        for m in &p.failing_modules {
            let m = match m.split_once('/') { Some((h, rest)) => format!("{}/{}", h.to_ascii_lowercase(), rest), None => m.to_ascii_lowercase() };
            let path = fail.join(&m);
            std::fs::create_dir_all(path.parent().unwrap()).unwrap();
            std::fs::write(&path, "10").unwrap();
        }
        let tals = self.config.extra_tals_dir.clone().unwrap();
        let _ = std::fs::remove_dir_all(&tals);
        std::fs::create_dir_all(&tals).unwrap();
        for (name, text) in &p.tals { std::fs::write(tals.join(format!("{name}.tal")), text).unwrap(); }
    }

    pub fn rsync_log(&self) -> Vec<serde_json::Value> {
        std::fs::read_to_string(self.ctrl.join("log.jsonl")).unwrap_or_default().lines()
            .filter_map(|l| serde_json::from_str(l).ok()).collect()
    }

    pub fn clear_rsync_log(&self) { let _ = std::fs::remove_file(self.ctrl.join("log.jsonl")); }
}

pub struct RunOut {
    pub snapshot: Option<PayloadSnapshot>,
    pub metrics: Option<Metrics>,
    pub error: Option<RunFailed>,
}

/// The server's initial run after a restart: a quick run on the data already present locally.
pub fn run_engine_initial(config: &Config, exceptions: &LocalExceptions) -> RunOut { run_engine_with(config, true, exceptions, true) }

/// One validation run with the real engine (collector on or off).
pub fn run_engine(config: &Config, update: bool, exceptions: &LocalExceptions) -> RunOut { run_engine_with(config, update, exceptions, false) }

/// One validation the way the one-shot commands drive it (`operation.rs`,
/// `Vrps::run`): a retryable failure is followed by `Engine::sanitize` and one
/// more run.  Returns the outcome and whether the retry happened.
pub fn run_engine_retrying(config: &Config, exceptions: &LocalExceptions) -> (RunOut, bool) {
    let failed = |e| RunOut { snapshot: None, metrics: None, error: Some(e) };
    let mut engine = match Engine::new(config, true) { Ok(e) => e, Err(_) => return (failed(RunFailed::fatal()), false) };
    if engine.ignite().is_err() { return (failed(RunFailed::fatal()), false) }
    let mut once = false;
    loop {
        match ValidationReport::process(&engine, config, false) {
            Ok((report, mut metrics)) => {
                let snap = report.into_snapshot(exceptions, &mut metrics);
                return (RunOut { snapshot: Some(snap), metrics: Some(metrics), error: None }, once)
            }
            Err(e) => {
                if e.should_retry() && !once && engine.sanitize().is_ok() { once = true; continue }
                return (failed(e), once)
            }
        }
    }
}

fn run_engine_with(config: &Config, update: bool, exceptions: &LocalExceptions, initial: bool) -> RunOut {
    let mut engine = match Engine::new(config, update) {
        Ok(e) => e, Err(_) => return RunOut { snapshot: None, metrics: None, error: Some(RunFailed::fatal()) }
    };
    if engine.ignite().is_err() { return RunOut { snapshot: None, metrics: None, error: Some(RunFailed::fatal()) } }
    match ValidationReport::process(&engine, config, initial) {
        Ok((report, mut metrics)) => {
            let snap = report.into_snapshot(exceptions, &mut metrics);
            RunOut { snapshot: Some(snap), metrics: Some(metrics), error: None }
        }
        Err(e) => RunOut { snapshot: None, metrics: None, error: Some(e) },
    }
}
