//! Model of consecutive runs on one cache: the collector's module copies
//! and the store, as the properties describe them.

use std::collections::BTreeMap;
use bytes::Bytes;
use super::build::Published;
use super::oracle::*;
use super::spec::*;

#[derive(Clone, Debug, PartialEq)]
pub enum Decision {
    /// The fetched version (index) was complete and valid and replaced the store.
    Fetched(usize),
    /// The stored version (index) was used.
    Stored(usize, &'static str),
    /// Nothing usable.
    Rejected(&'static str),
    /// The CA was not reached in this run.
    Unreached,
}

#[derive(Clone, Debug)]
pub struct StoredVersion {
    pub version: usize,
    pub ca: Ca,
    pub manifest: Bytes,
    /// uri -> content of every listed file
    pub files: BTreeMap<String, Bytes>,
}

#[derive(Default)]
pub struct HistModel {
    pub versions: Vec<(World, Published)>,
    /// module ("host/repo") -> version index the local copy holds
    pub copy: BTreeMap<String, usize>,
    pub stored: BTreeMap<usize, StoredVersion>,
    pub decisions: BTreeMap<usize, Decision>,
}

fn module_of(w: &World, ca: usize) -> String { format!("{}/repo", w.host(w.cas[w.point_of(ca)].repo)) }

/// Is the manifest + CRL of this publication point version usable at `now`?
pub fn manifest_usable(c: &Ca, now: Ts, pol: &Policy, fetched: bool) -> Result<(), &'static str> {
    use PointFault::*;
    for f in &c.point_faults {
        match f {
            MftBadSignature | MftForeignKey | MftEeRevoked | MftGarbage | MftAbsent => return Err("manifest invalid"),
            CrlMissing | CrlNotListed | CrlWrongHash | CrlBadSignature | CrlGarbage => return Err("crl invalid"),
            _ => {}
        }
    }
    if now < c.mft_ee_nb || now > c.mft_ee_na { return Err("manifest ee not current") }
    if fetched && c.mft_this > now { return Err("premature") }
    if (c.mft_next < now || c.crl_next < now) && pol.stale == Filter::Reject { return Err("stale") }
    Ok(())
}

pub fn point_complete(c: &Ca) -> bool {
    !c.point_faults.contains(&PointFault::MissingFile) && !c.point_faults.contains(&PointFault::WrongHash)
}

impl HistModel {
    pub fn new() -> Self { Self::default() }

    /// Files of the listed objects of CA `ca` in version `v` (as stored).
    fn listed_files(&self, v: usize, ca: usize) -> BTreeMap<String, Bytes> {
        let (w, p) = &self.versions[v];
        let mut m = BTreeMap::new();
        for o in &w.cas[ca].objects {
            if o.fault == Some(Fault::Unlisted) { continue }
            let uri = w.object_uri(ca, o);
            if let Some(b) = p.files.get(&uri) { m.insert(uri, b.clone()); }
        }
        if !w.cas[ca].point_faults.contains(&PointFault::CrlNotListed) {
            if let Some(b) = p.files.get(&w.crl_uri(ca)) { m.insert(w.crl_uri(ca), b.clone()); }
        }
        m
    }

    /// Performs one modelled run with updates enabled. Returns the expected
    /// outcome. `w`/`p` is what the servers offer now.
    pub fn step(&mut self, w: World, p: Published, now: Ts, pol: &Policy, update: bool) -> Expected {
        let v = self.versions.len();
        self.versions.push((w.clone(), p.clone()));
        if update {
            // Module copies: every module that some reached CA needs is fetched once; we
            // update copies lazily below when a CA is visited (a module is only fetched
            // if a CA in it is reached). Failing modules keep their old copy.
        }
        self.decisions.clear();
        let mut stored = std::mem::take(&mut self.stored);
        let mut copy = std::mem::take(&mut self.copy);
        let mut decisions: BTreeMap<usize, Decision> = BTreeMap::new();
        let versions = &self.versions;
        let point = |ca: usize| -> Option<CaPayload> {
            // interior mutability through raw pointers is avoided: the closure is FnMut-like via RefCell below
            let _ = ca; None
        };
        let _ = point;
        // expect_with takes Fn closures; use RefCells for the mutable model parts.
        let stored_c = std::cell::RefCell::new(&mut stored);
        let copy_c = std::cell::RefCell::new(&mut copy);
        let dec_c = std::cell::RefCell::new(&mut decisions);
        let this = &*self;
        let e = expect_with(&w, now, pol,
            &|t| ta_usable(&w, t) && w.tals[t].ta_nb <= now && now <= w.tals[t].ta_na,
            &|ca_id| {
                let ca = w.point_of(ca_id);
                let module = module_of(&w, ca);
                let mut copy = copy_c.borrow_mut();
                let mut stored = stored_c.borrow_mut();
                let mut dec = dec_c.borrow_mut();
                if update && !p.failing_modules.contains(&module) { copy.insert(module.clone(), v); }
                let collected_v = if update { copy.get(&module).cloned() } else { None };
                let mut reason: &'static str = "no copy";
                if let Some(j) = collected_v {
                    let (wj, pj) = &versions[j];
                    let cj = &wj.cas[ca];
                    let mft = pj.files.get(&wj.manifest_uri(ca));
                    match mft {
                        None => reason = "no manifest in copy",
                        Some(mft) => {
                            let same = stored.get(&ca).map(|s| s.manifest == *mft).unwrap_or(false);
                            if same { reason = "same manifest" }
                            else if let Err(r) = manifest_usable(cj, now, pol, true) { reason = r }
                            else if let Some(s) = stored.get(&ca) {
                                if !(cj.mft_number > s.ca.mft_number && cj.mft_this > s.ca.mft_this) { reason = "not newer" }
                                else if !point_complete(cj) { reason = "incomplete" }
                                else { reason = "" }
                            }
                            else if !point_complete(cj) { reason = "incomplete" }
                            else { reason = "" }
                            if reason.is_empty() {
                                stored.insert(ca, StoredVersion { version: j, ca: cj.clone(), manifest: mft.clone(), files: this.listed_files_v(versions, j, ca) });
                                dec.insert(ca_id, Decision::Fetched(j));
                                return Some(point_payload_of(cj, now, pol))
                            }
                        }
                    }
                }
                match stored.get(&ca) {
                    None => { dec.insert(ca_id, Decision::Rejected(reason)); None }
                    Some(s) => match manifest_usable(&s.ca, now, pol, false) {
                        Ok(()) => { dec.insert(ca_id, Decision::Stored(s.version, reason)); Some(point_payload_of(&s.ca, now, pol)) }
                        Err(r) => { dec.insert(ca_id, Decision::Rejected(r)); None }
                    }
                }
            });
        drop(stored_c); drop(copy_c); drop(dec_c);
        self.stored = stored;
        self.copy = copy;
        for c in 0..w.cas.len() { decisions.entry(c).or_insert(Decision::Unreached); }
        self.decisions = decisions;
        e
    }

    fn listed_files_v(&self, versions: &[(World, Published)], v: usize, ca: usize) -> BTreeMap<String, Bytes> {
        let _ = versions;
        self.listed_files(v, ca)
    }
}
