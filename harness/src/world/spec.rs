//! The world model: TALs, CA tree, publication points, objects, faults.
//! Everything the oracle needs is in these plain values; nothing here calls
//! validation code.

use serde::{Deserialize, Serialize};
use crate::core::Rng;

pub type Ts = i64;

/// Object-level faults: each makes exactly that object invalid.
#[derive(Clone, Copy, Debug, PartialEq, Eq, Hash, Serialize, Deserialize, PartialOrd, Ord)]
pub enum Fault {
    BadSignature,
    ForeignKey,
    Overclaim,
    Revoked,
    Expired,
    NotYetValid,
    WrongCrlDp,
    Garbage,
    Unlisted,
}

pub const OBJ_FAULTS: [Fault; 9] = [
    Fault::BadSignature, Fault::ForeignKey, Fault::Overclaim, Fault::Revoked, Fault::Expired,
    Fault::NotYetValid, Fault::WrongCrlDp, Fault::Garbage, Fault::Unlisted,
];

/// Publication-point-level faults: each makes the fetched point unusable
/// (possibly only under the 'reject' stale policy).
#[derive(Clone, Copy, Debug, PartialEq, Eq, Hash, Serialize, Deserialize, PartialOrd, Ord)]
pub enum PointFault {
    MissingFile, WrongHash,
    MftBadSignature, MftForeignKey, MftEeRevoked, MftPremature, MftStale, MftEeExpired, MftGarbage, MftAbsent,
    CrlMissing, CrlNotListed, CrlWrongHash, CrlBadSignature, CrlStale, CrlGarbage,
}

pub const POINT_FAULTS: [PointFault; 16] = [
    PointFault::MissingFile, PointFault::WrongHash, PointFault::MftBadSignature, PointFault::MftForeignKey,
    PointFault::MftEeRevoked, PointFault::MftPremature, PointFault::MftStale, PointFault::MftEeExpired,
    PointFault::MftGarbage, PointFault::MftAbsent, PointFault::CrlMissing, PointFault::CrlNotListed,
    PointFault::CrlWrongHash, PointFault::CrlBadSignature, PointFault::CrlStale, PointFault::CrlGarbage,
];

impl PointFault {
    /// Does this fault only matter under the 'reject' stale policy?
    pub fn stale_only(self) -> bool { matches!(self, PointFault::MftStale | PointFault::CrlStale) }
}

mod hex128 {
    use serde::{Deserialize, Deserializer, Serializer};
    pub fn serialize<S: Serializer>(v: &u128, s: S) -> Result<S::Ok, S::Error> { s.serialize_str(&format!("{:032x}", v)) }
    pub fn deserialize<'de, D: Deserializer<'de>>(d: D) -> Result<u128, D::Error> {
        let s = String::deserialize(d)?;
        u128::from_str_radix(&s, 16).map_err(serde::de::Error::custom)
    }
}

/// A ROA prefix: address bits in the top of a u128 (IPv4 in the top 32 bits).
#[derive(Clone, Copy, Debug, PartialEq, Eq, Hash, Serialize, Deserialize, PartialOrd, Ord)]
pub struct Pfx {
    pub v4: bool,
    #[serde(with = "hex128")]
    pub bits: u128,
    pub len: u8,
    pub max: Option<u8>,
}

#[derive(Clone, Debug, PartialEq, Eq, Hash, Serialize, Deserialize)]
pub enum ObjKind {
    Roa { asn: u32, prefixes: Vec<Pfx> },
    Aspa { customer: u32, providers: Vec<u32> },
    Router { asns: Vec<u32>, ec: usize },
    Gbr,
    Unknown,
    /// The CA certificate of the child CA with that id.
    ChildCa(usize),
}

#[derive(Clone, Debug, PartialEq, Eq, Hash, Serialize, Deserialize)]
pub struct Obj {
    pub name: String,
    pub kind: ObjKind,
    pub serial: u64,
    /// Validity of the object's (EE or CA) certificate.
    pub nb: Ts,
    pub na: Ts,
    pub fault: Option<Fault>,
    /// A salt that changes the bytes without changing the meaning (re-signing).
    pub salt: u32,
}

#[derive(Clone, Debug, PartialEq, Eq, Hash, Serialize, Deserialize)]
pub struct Ca {
    pub id: usize,
    pub parent: Option<usize>,
    pub tal: usize,
    /// Index into the key pool.
    pub key: usize,
    /// Repository (rsync host) this CA publishes in.
    pub repo: usize,
    /// Is the repository also announced via RRDP (rpkiNotify present)?
    pub rrdp: bool,
    /// Resource block indices held in addition to the own block and the
    /// descendants' blocks (creates overlaps between unrelated CAs).
    pub extra_blocks: Vec<usize>,
    pub mft_number: u64,
    pub mft_this: Ts,
    pub mft_next: Ts,
    pub mft_ee_nb: Ts,
    pub mft_ee_na: Ts,
    pub mft_serial: u64,
    pub crl_this: Ts,
    pub crl_next: Ts,
    pub point_faults: Vec<PointFault>,
    /// Index of the object hit by MissingFile / WrongHash.
    pub fault_target: usize,
    pub objects: Vec<Obj>,
    /// Is the repository (rsync module) unreachable (rsync exits non-zero)?
    pub unreachable: bool,
    /// If set, this "CA" is a second certificate for the key of the given
    /// (ancestor) CA pointing at that CA's publication point: a cycle.
    #[serde(default)]
    pub alias_of: Option<usize>,
    /// Does the CA additionally hold 0.0.0.0/0 and ::/0?
    #[serde(default)]
    pub slash0: bool,
    /// With `slash0`: 0 = both families are /0, 1 = only IPv4 is 0.0.0.0/0 (IPv6 are the blocks), 2 = only IPv6 is ::/0.
    #[serde(default)]
    pub slash0_families: u8,
    /// Serial numbers of EE certificates of objects that are no longer published and are listed on the CRL
    /// (a CA revokes what it replaces).
    #[serde(default)]
    pub also_revoked: Vec<u64>,
}

#[derive(Clone, Debug, PartialEq, Eq, Hash, Serialize, Deserialize)]
pub enum TaState { Good, WrongKey, Garbage, Expired, Unreachable,
    /// a certificate with the right key whose notBefore is one hour after the world's `now`
    NotYetValid }

#[derive(Clone, Debug, PartialEq, Eq, Hash, Serialize, Deserialize)]
pub struct Tal {
    pub name: String,
    /// The root CA's id.
    pub root: usize,
    /// One state per TAL URI (all rsync in this generator).
    pub uris: Vec<TaState>,
    pub ta_nb: Ts,
    pub ta_na: Ts,
}

#[derive(Clone, Debug, PartialEq, Eq, Hash, Serialize, Deserialize)]
pub struct World {
    /// The instant (unix seconds) the world was generated for.
    pub now: Ts,
    pub tals: Vec<Tal>,
    pub cas: Vec<Ca>,
    /// Host names of repositories that differ from the default r<N>.rpki.test.
    #[serde(default)]
    pub host_override: std::collections::BTreeMap<usize, String>,
    /// Host names used in rpkiNotify URIs where they differ from the repository's rsync host.
    #[serde(default)]
    pub notify_host_override: std::collections::BTreeMap<usize, String>,
    /// "module/dir" of a CA's publication point where it differs from "repo/ca<N>".
    #[serde(default)]
    pub ca_dir_override: std::collections::BTreeMap<usize, String>,
}

pub const YEAR: Ts = 365 * 86400;
pub const DAY: Ts = 86400;

impl World {
    pub fn children(&self, ca: usize) -> Vec<usize> {
        self.cas.iter().filter(|c| c.parent == Some(ca)).map(|c| c.id).collect()
    }

    pub fn depth(&self, ca: usize) -> usize {
        let mut d = 0; let mut c = ca;
        while let Some(p) = self.cas[c].parent { d += 1; c = p; }
        d
    }

    /// All block indices a CA holds: own, descendants', extras.
    pub fn blocks(&self, ca: usize) -> Vec<usize> {
        if let Some(t) = self.cas[ca].alias_of { return vec![t] }
        let mut out = vec![ca];
        out.extend(self.cas[ca].extra_blocks.iter().cloned());
        for c in self.children(ca) { out.extend(self.blocks(c)); }
        out.sort(); out.dedup();
        out
    }

    /// Does the CA hold the whole IPv4 / IPv6 address family?
    pub fn whole_family(&self, ca: usize, v4: bool) -> bool {
        let c = &self.cas[ca];
        c.slash0 && match c.slash0_families { 1 => v4, 2 => !v4, _ => true }
    }

    pub fn is_ancestor(&self, anc: usize, of: usize) -> bool {
        let mut c = of;
        while let Some(p) = self.cas[c].parent { if p == anc { return true } c = p; }
        false
    }

    pub fn host(&self, repo: usize) -> String { self.host_override.get(&repo).cloned().unwrap_or_else(|| format!("r{repo}.rpki.test")) }
    /// The CA whose publication point `ca` uses (itself unless it is an alias).
    pub fn point_of(&self, ca: usize) -> usize { self.cas[ca].alias_of.unwrap_or(ca) }
    pub fn ca_repository(&self, ca: usize) -> String { let ca = self.point_of(ca); match self.ca_dir_override.get(&ca) { Some(d) => format!("rsync://{}/{}/", self.host(self.cas[ca].repo), d), None => format!("rsync://{}/repo/ca{}/", self.host(self.cas[ca].repo), ca) } }
    pub fn manifest_uri(&self, ca: usize) -> String { let ca = self.point_of(ca); format!("{}ca{}.mft", self.ca_repository(ca), ca) }
    pub fn crl_uri(&self, ca: usize) -> String { let ca = self.point_of(ca); format!("{}ca{}.crl", self.ca_repository(ca), ca) }
    pub fn notify_host(&self, repo: usize) -> String { self.notify_host_override.get(&repo).cloned().unwrap_or_else(|| self.host(repo)) }
    pub fn notify_uri(&self, repo: usize) -> String { format!("https://{}/rrdp/notification.xml", self.notify_host(repo)) }
    pub fn ta_uri(&self, tal: usize, n: usize) -> String { format!("rsync://ta{}u{}.rpki.test/ta/root.cer", tal, n) }
    pub fn object_uri(&self, ca: usize, obj: &Obj) -> String { format!("{}{}", self.ca_repository(ca), obj.name) }
    /// URI of the CA's own certificate (published by the parent).
    pub fn cert_uri(&self, ca: usize) -> Option<String> {
        let p = self.cas[ca].parent?;
        let o = self.cas[p].objects.iter().find(|o| o.kind == ObjKind::ChildCa(ca))?;
        Some(self.object_uri(p, o))
    }
}

/// The resource block of index `i`: 10.i.0.0/16, 2001:db8:i::/48, AS 100000+100i..+99.
pub fn block_v4(i: usize) -> (u128, u8) { ((((10u32 << 24) | ((i as u32 & 0xff) << 16)) as u128) << 96, 16) }
pub fn block_v6(i: usize) -> (u128, u8) { ((0x2001_0db8u128 << 96) | ((i as u128 & 0xffff) << 80), 48) }
pub fn block_as(i: usize) -> (u32, u32) { (100_000 + 100 * i as u32, 100_000 + 100 * i as u32 + 99) }
/// Which block does an ASN belong to (attribution of payload to a CA)?
pub fn asn_block(asn: u32) -> Option<usize> { if (100_000..200_000).contains(&asn) { Some(((asn - 100_000) / 100) as usize) } else { None } }

//------------ Random generation ---------------------------------------------

#[derive(Clone, Debug)]
pub struct GenParams {
    pub tals: usize,
    pub max_cas: usize,
    pub max_depth: usize,
    pub max_objects: usize,
    pub repos: usize,
    pub obj_faults: usize,
    pub point_faults: usize,
    pub overlaps: bool,
    pub rrdp: bool,
}

impl Default for GenParams {
    fn default() -> Self {
        GenParams { tals: 1, max_cas: 8, max_depth: 3, max_objects: 6, repos: 3, obj_faults: 0, point_faults: 0, overlaps: false, rrdp: false }
    }
}

pub fn gen_object(rng: &mut Rng, now: Ts, ca: usize, blocks: &[usize], n: usize, serial: u64) -> Obj {
    let kind_sel = rng.usize(10);
    let b = blocks[rng.usize(blocks.len())];
    let (kind, ext) = match kind_sel {
        0..=5 => {
            let mut prefixes = Vec::new();
            for _ in 0..1 + rng.usize(3) {
                let bb = blocks[rng.usize(blocks.len())];
                if rng.bool() {
                    let (bits, len) = block_v4(bb);
                    let l = len + rng.usize(10) as u8;   // /16../25
                    let sub = (rng.u64() as u128 & ((1u128 << (l - len)) - 1)) << (128 - l as u32);
                    let max = match rng.usize(3) { 0 => None, 1 => Some(l), _ => Some((l + rng.usize(4) as u8).min(32)) };
                    prefixes.push(Pfx { v4: true, bits: bits | sub, len: l, max });
                } else {
                    let (bits, len) = block_v6(bb);
                    let l = len + rng.usize(4) as u8;    // /48../51
                    let sub = (rng.u64() as u128 & ((1u128 << (l - len)) - 1)) << (128 - l as u32);
                    let max = match rng.usize(3) { 0 => None, 1 => Some(l), _ => Some((l + rng.usize(16) as u8).min(128)) };
                    prefixes.push(Pfx { v4: false, bits: bits | sub, len: l, max });
                }
            }
            prefixes.sort(); prefixes.dedup_by(|a, b| a.v4 == b.v4 && a.bits == b.bits && a.len == b.len);
            // The origin AS identifies the publishing CA (attribution).
            // offset 50 is reserved for the version markers of the history checks (see props/hist.rs)
            (ObjKind::Roa { asn: block_as(ca).0 + { let o = rng.u32() % 99; if o >= 50 { o + 1 } else { o } }, prefixes }, "roa")
        }
        6 | 7 => {
            let customer = block_as(b).0 + rng.u32() % 100;
            let np = 1 + rng.usize(5);
            let mut providers: Vec<u32> = (0..np).map(|_| 64000 + rng.u32() % 40).collect();
            providers.sort(); providers.dedup();
            (ObjKind::Aspa { customer, providers }, "asa")
        }
        8 => {
            let base = block_as(b).0;
            let mut asns: Vec<u32> = (0..1 + rng.usize(2)).map(|_| base + rng.u32() % 100).collect();
            asns.sort(); asns.dedup();
            (ObjKind::Router { asns, ec: rng.usize(4) }, "cer")
        }
        // an unknown object may also be named like a CRL: a listed ".crl" that is not the manifest's own CRL is a stray
        // file that still has to match its manifest hash
        _ => if rng.bool() { (ObjKind::Gbr, "gbr") } else if rng.chance(1, 3) { (ObjKind::Unknown, "xyz") } else { (ObjKind::Unknown, "crl") },
    };
    Obj { name: format!("o{ca}-{n}.{ext}"), kind, serial, nb: now - DAY, na: now + 30 * DAY + (rng.below(300) as Ts) * DAY, fault: None, salt: 0 }
}

pub fn generate(rng: &mut Rng, now: Ts, p: &GenParams) -> World {
    let mut w = World { now, tals: Vec::new(), cas: Vec::new(), host_override: Default::default(), notify_host_override: Default::default(), ca_dir_override: Default::default() };
    let mut next_key = 0usize;
    for t in 0..p.tals {
        let root = w.cas.len();
        w.tals.push(Tal { name: format!("tal{t}"), root, uris: vec![TaState::Good], ta_nb: now - YEAR, ta_na: now + 10 * YEAR });
        let per_tal = (p.max_cas / p.tals).max(1);
        let n = 1 + rng.usize(per_tal);
        for i in 0..n {
            let id = w.cas.len();
            let parent = if i == 0 { None } else {
                // choose a parent among this TAL's CAs whose depth allows a child
                let cands: Vec<usize> = (root..id).filter(|c| w.depth(*c) < p.max_depth).collect();
                if cands.is_empty() { Some(root) } else { Some(cands[rng.usize(cands.len())]) }
            };
            let repo = match parent { None => rng.usize(p.repos), Some(pp) => if rng.chance(2, 3) { w.cas[pp].repo } else { rng.usize(p.repos) } };
            let this = now - 3600 - rng.below(3600) as Ts;
            let next = now + DAY + rng.below(6 * DAY as u64) as Ts;
            w.cas.push(Ca {
                id, parent, tal: t, key: next_key % super::keys::CA_KEYS, repo, rrdp: false, extra_blocks: Vec::new(),
                mft_number: 1 + rng.below(1000), mft_this: this, mft_next: next, mft_ee_nb: this - 60, mft_ee_na: next + rng.below(3 * DAY as u64) as Ts,
                mft_serial: 1, crl_this: this, crl_next: next + rng.below(DAY as u64) as Ts,
                point_faults: Vec::new(), fault_target: 0, objects: Vec::new(), unreachable: false, alias_of: None, slash0: false, slash0_families: 0, also_revoked: Vec::new(),
            });
            next_key += 1;
            if let Some(pp) = parent {
                let serial = 10 + w.cas[pp].objects.len() as u64;
                let na = now + 60 * DAY + rng.below(300) as Ts * DAY;
                w.cas[pp].objects.push(Obj { name: format!("ca{id}.cer"), kind: ObjKind::ChildCa(id), serial, nb: now - 2 * DAY, na, fault: None, salt: 0 });
            }
        }
    }
    if p.overlaps {
        // Give some CAs blocks of unrelated CAs (of the same TAL, so the TA holds them).
        for id in 0..w.cas.len() {
            if rng.chance(1, 3) {
                let tal = w.cas[id].tal;
                let others: Vec<usize> = w.cas.iter().filter(|c| c.tal == tal && c.id != id && !w.is_ancestor(id, c.id) && !w.is_ancestor(c.id, id)).map(|c| c.id).collect();
                if !others.is_empty() {
                    let o = others[rng.usize(others.len())];
                    // the block must also be held by all ancestors of `id`
                    let mut c = id;
                    loop { if !w.cas[c].extra_blocks.contains(&o) { w.cas[c].extra_blocks.push(o); } match w.cas[c].parent { Some(pp) => c = pp, None => break } }
                }
            }
        }
    }
    // Objects.
    for id in 0..w.cas.len() {
        let blocks = w.blocks(id);
        let n = rng.usize(p.max_objects + 1);
        for k in 0..n {
            let serial = 100 + w.cas[id].objects.len() as u64;
            let o = gen_object(rng, now, id, &blocks, k, serial);
            w.cas[id].objects.push(o);
        }
        if p.rrdp { w.cas[id].rrdp = rng.bool(); }
    }
    // RRDP is a property of the repository: all CAs of one repo agree.
    if p.rrdp {
        for r in 0..p.repos {
            let v = rng.bool();
            for c in w.cas.iter_mut().filter(|c| c.repo == r) { c.rrdp = v; }
        }
    }
    // Faults.
    for _ in 0..p.obj_faults {
        let cands: Vec<(usize, usize)> = w.cas.iter().flat_map(|c| (0..c.objects.len()).map(move |i| (c.id, i))).collect();
        if cands.is_empty() { break }
        let (c, i) = cands[rng.usize(cands.len())];
        if w.cas[c].objects[i].fault.is_none() {
            let mut f = OBJ_FAULTS[rng.usize(OBJ_FAULTS.len())];
            // Overclaim is not meaningful for objects without resources.
            if f == Fault::Overclaim && matches!(w.cas[c].objects[i].kind, ObjKind::Gbr | ObjKind::Unknown) { f = Fault::Garbage }
            apply_obj_fault(&mut w, c, i, f);
        }
    }
    for _ in 0..p.point_faults {
        let c = rng.usize(w.cas.len());
        let f = POINT_FAULTS[rng.usize(POINT_FAULTS.len())];
        apply_point_fault(&mut w, c, f, rng);
    }
    w
}

pub fn apply_obj_fault(w: &mut World, ca: usize, obj: usize, f: Fault) {
    let now = w.now;
    let o = &mut w.cas[ca].objects[obj];
    o.fault = Some(f);
    match f {
        Fault::Expired => { o.nb = now - 20 * DAY; o.na = now - 3600; }
        Fault::NotYetValid => { o.nb = now + 3600; o.na = now + 20 * DAY; }
        _ => {}
    }
}

pub fn apply_point_fault(w: &mut World, ca: usize, f: PointFault, rng: &mut Rng) {
    let now = w.now;
    let c = &mut w.cas[ca];
    if (f == PointFault::MissingFile || f == PointFault::WrongHash) && !c.objects.iter().any(|o| o.fault != Some(Fault::Unlisted)) { return }
    if !c.point_faults.contains(&f) { c.point_faults.push(f); }
    match f {
        PointFault::MissingFile | PointFault::WrongHash => {
            let listed: Vec<usize> = (0..c.objects.len()).filter(|i| c.objects[*i].fault != Some(Fault::Unlisted)).collect();
            c.fault_target = listed[rng.usize(listed.len())];
            // half of the time the fault hits a stray ".crl" if the point lists one (an object type of its own in the
            // validator's loop over manifest entries)
            if let Some(i) = listed.iter().find(|i| c.objects[**i].name.ends_with(".crl")) { if rng.bool() { c.fault_target = *i; } }
        }
        PointFault::MftPremature => { c.mft_this = now + 3600; if c.mft_next < c.mft_this + 3600 { c.mft_next = c.mft_this + DAY } c.mft_ee_nb = now - 3600; }
        PointFault::MftStale => { c.mft_next = now - 1800; c.mft_this = now - 2 * DAY; c.mft_ee_nb = c.mft_this - 60; }
        PointFault::MftEeExpired => { c.mft_ee_na = now - 1800; c.mft_ee_nb = now - 3 * DAY; }
        PointFault::CrlStale => { c.crl_next = now - 1800; c.crl_this = now - 2 * DAY; }
        _ => {}
    }
}

/// Adds a cycle: CA `from` issues a certificate for the key of its ancestor
/// `to`, pointing at `to`'s publication point. Returns the alias CA's id.
pub fn add_cycle(w: &mut World, from: usize, to: usize) -> usize {
    let id = w.cas.len();
    let now = w.now;
    let mut c = w.cas[to].clone();
    c.id = id; c.parent = Some(from); c.alias_of = Some(to); c.objects = Vec::new(); c.point_faults = Vec::new(); c.extra_blocks = Vec::new();
    w.cas.push(c);
    let serial = 500 + w.cas[from].objects.len() as u64;
    w.cas[from].objects.push(Obj { name: format!("ca{id}.cer"), kind: ObjKind::ChildCa(id), serial, nb: now - 2 * DAY, na: now + 90 * DAY, fault: None, salt: 0 });
    id
}

/// A TAL with a single chain of `len` CAs below the TA, each with `objs` objects.
pub fn gen_chain(rng: &mut Rng, now: Ts, len: usize, objs: usize) -> World {
    let mut w = World { now, tals: vec![Tal { name: "chain".into(), root: 0, uris: vec![TaState::Good], ta_nb: now - YEAR, ta_na: now + 10 * YEAR }], cas: Vec::new(), host_override: Default::default(), notify_host_override: Default::default(), ca_dir_override: Default::default() };
    for id in 0..=len {
        let this = now - 3600; let next = now + 3 * DAY;
        w.cas.push(Ca { id, parent: if id == 0 { None } else { Some(id - 1) }, tal: 0, key: id % super::keys::CA_KEYS, repo: id % 2, rrdp: false, extra_blocks: Vec::new(),
            mft_number: 5, mft_this: this, mft_next: next, mft_ee_nb: this - 60, mft_ee_na: next + DAY, mft_serial: 1, crl_this: this, crl_next: next,
            point_faults: Vec::new(), fault_target: 0, objects: Vec::new(), unreachable: false, alias_of: None, slash0: false, slash0_families: 0, also_revoked: Vec::new() });
        if id > 0 {
            let serial = 10 + w.cas[id - 1].objects.len() as u64;
            w.cas[id - 1].objects.push(Obj { name: format!("ca{id}.cer"), kind: ObjKind::ChildCa(id), serial, nb: now - 2 * DAY, na: now + 90 * DAY, fault: None, salt: 0 });
        }
    }
    for id in 0..=len {
        let blocks = w.blocks(id);
        for k in 0..objs { let serial = 100 + w.cas[id].objects.len() as u64; let o = gen_object(rng, now, id, &blocks, k, serial); w.cas[id].objects.push(o); }
    }
    w
}

/// Adds a child CA below `parent`, published in `repo`, with `objs` objects.
pub fn add_child(w: &mut World, rng: &mut Rng, parent: usize, repo: usize, objs: usize) -> usize {
    let id = w.cas.len();
    let now = w.now;
    let mut c = w.cas[parent].clone();
    c.id = id; c.parent = Some(parent); c.repo = repo; c.objects = Vec::new(); c.extra_blocks = Vec::new();
    c.point_faults = Vec::new(); c.unreachable = false; c.alias_of = None; c.slash0 = false; c.slash0_families = 0;
    // a key not yet on the chain to the root
    let mut used: Vec<usize> = vec![w.cas[parent].key];
    let mut p = parent; while let Some(pp) = w.cas[p].parent { used.push(w.cas[pp].key); p = pp; }
    let mut key = (id * 7 + 3) % super::keys::CA_KEYS;
    while used.contains(&key) { key = (key + 1) % super::keys::CA_KEYS; }
    c.key = key;
    w.cas.push(c);
    let serial = 5000 + id as u64;
    w.cas[parent].objects.push(Obj { name: format!("ca{id}.cer"), kind: ObjKind::ChildCa(id), serial, nb: now - DAY, na: now + 60 * DAY, fault: None, salt: 0 });
    for k in 0..objs { let o = gen_object(rng, now, id, &[id], k, 100 + k as u64); w.cas[id].objects.push(o); }
    id
}

/// Appends a further trust anchor with its own chain of `len + 1` CAs to the world (ids, keys and resource blocks
/// continue after the existing CAs).
pub fn add_chain(w: &mut World, rng: &mut Rng, len: usize, objs: usize) -> usize {
    let now = w.now;
    let tal = w.tals.len();
    let first = w.cas.len();
    w.tals.push(Tal { name: format!("chain{tal}"), root: first, uris: vec![TaState::Good], ta_nb: now - YEAR, ta_na: now + 10 * YEAR });
    for k in 0..=len {
        let id = first + k;
        let this = now - 3600; let next = now + 3 * DAY;
        w.cas.push(Ca { id, parent: if k == 0 { None } else { Some(id - 1) }, tal, key: (id + 11 * tal) % super::keys::CA_KEYS, repo: id % 2, rrdp: false, extra_blocks: Vec::new(),
            mft_number: 5, mft_this: this, mft_next: next, mft_ee_nb: this - 60, mft_ee_na: next + DAY, mft_serial: 1, crl_this: this, crl_next: next,
            point_faults: Vec::new(), fault_target: 0, objects: Vec::new(), unreachable: false, alias_of: None, slash0: false, slash0_families: 0, also_revoked: Vec::new() });
        if k > 0 {
            let serial = 10 + w.cas[id - 1].objects.len() as u64;
            w.cas[id - 1].objects.push(Obj { name: format!("ca{id}.cer"), kind: ObjKind::ChildCa(id), serial, nb: now - 2 * DAY, na: now + 90 * DAY, fault: None, salt: 0 });
        }
    }
    for k in 0..=len {
        let id = first + k;
        let blocks = w.blocks(id);
        for j in 0..objs { let serial = 100 + w.cas[id].objects.len() as u64; let o = gen_object(rng, now, id, &blocks, j, serial); w.cas[id].objects.push(o); }
    }
    first
}
