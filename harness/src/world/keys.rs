//! A signer over the committed key pool. `sign_one_off` draws EE keys from
//! the pool instead of generating RSA keys (which would dominate run time).

use std::io;
use std::sync::atomic::{AtomicUsize, Ordering};
use bcder::decode::IntoSource;
use openssl::hash::MessageDigest;
use openssl::pkey::{PKey, Private};
use rpki::crypto::keys::{PublicKey, PublicKeyFormat};
use rpki::crypto::signature::{Signature, SignatureAlgorithm};
use rpki::crypto::signer::{KeyError, Signer, SigningAlgorithm, SigningError};

pub const POOL: usize = 48;
/// Keys 0..CA_KEYS are used for CAs, the rest for one-off EE keys.
pub const CA_KEYS: usize = 36;

pub struct PoolSigner {
    keys: Vec<(PKey<Private>, PublicKey)>,
    next_ee: AtomicUsize,
    pub ec_pubs: Vec<PublicKey>,
}

impl PoolSigner {
    pub fn load() -> Result<Self, String> {
        let dir = std::path::Path::new(crate::core::VERIF_DIR).join("fixtures/keys");
        let mut keys = Vec::new();
        for i in 0..POOL {
            let pem = std::fs::read(dir.join(format!("rsa{i}.pem"))).map_err(|e| format!("key {i}: {e}"))?;
            let k = PKey::private_key_from_pem(&pem).map_err(|e| e.to_string())?;
            let der = k.rsa().map_err(|e| e.to_string())?.public_key_to_der().map_err(|e| e.to_string())?;
            let info = PublicKey::decode(der.as_slice().into_source()).map_err(|e| e.to_string())?;
            keys.push((k, info));
        }
        let mut ec_pubs = Vec::new();
        for i in 0..4 {
            let der = std::fs::read(dir.join(format!("ec{i}.pub.der"))).map_err(|e| format!("ec key {i}: {e}"))?;
            ec_pubs.push(PublicKey::decode(der.as_slice().into_source()).map_err(|e| format!("ec {i}: {e}"))?);
        }
        Ok(PoolSigner { keys, next_ee: AtomicUsize::new(0), ec_pubs })
    }

    pub fn public(&self, key: usize) -> &PublicKey { &self.keys[key].1 }

    fn sign_with<Alg: SignatureAlgorithm>(&self, key: usize, algorithm: Alg, data: &[u8]) -> Result<Signature<Alg>, io::Error> {
        if !matches!(algorithm.signing_algorithm(), SigningAlgorithm::RsaSha256) {
            return Err(io::Error::other("invalid algorithm"))
        }
        let mut signer = openssl::sign::Signer::new(MessageDigest::sha256(), &self.keys[key].0)?;
        signer.update(data)?;
        Ok(Signature::new(algorithm, signer.sign_to_vec()?.into()))
    }
}

impl Signer for PoolSigner {
    type KeyId = usize;
    type Error = io::Error;

    fn create_key(&self, _: PublicKeyFormat) -> Result<usize, io::Error> { Err(io::Error::other("pool signer does not create keys")) }
    fn get_key_info(&self, key: &usize) -> Result<PublicKey, KeyError<io::Error>> {
        self.keys.get(*key).map(|k| k.1.clone()).ok_or(KeyError::KeyNotFound)
    }
    fn destroy_key(&self, _: &usize) -> Result<(), KeyError<io::Error>> { Ok(()) }
    fn sign<Alg: SignatureAlgorithm, D: AsRef<[u8]> + ?Sized>(&self, key: &usize, algorithm: Alg, data: &D)
        -> Result<Signature<Alg>, SigningError<io::Error>> {
        self.sign_with(*key, algorithm, data.as_ref()).map_err(Into::into)
    }
    fn sign_one_off<Alg: SignatureAlgorithm, D: AsRef<[u8]> + ?Sized>(&self, algorithm: Alg, data: &D)
        -> Result<(Signature<Alg>, PublicKey), io::Error> {
        let k = CA_KEYS + self.next_ee.fetch_add(1, Ordering::Relaxed) % (POOL - CA_KEYS);
        Ok((self.sign_with(k, algorithm, data.as_ref())?, self.keys[k].1.clone()))
    }
    fn rand(&self, target: &mut [u8]) -> Result<(), io::Error> {
        for (i, b) in target.iter_mut().enumerate() { *b = (i as u8).wrapping_mul(37).wrapping_add(11) }
        Ok(())
    }
}
