#!/bin/bash
# tools/keep_mutant.sh <worktree dir> <seeded name> "<caught by / result text>"
set -e
SRC="$1"; NAME="$2"; RESULT="$3"
DST=/verif/seeded/$NAME
mkdir -p "$DST"
cp "$SRC/patch.diff" "$DST/patch.diff"
[ -f "$SRC/DEMO.md" ] && cp "$SRC/DEMO.md" "$DST/DEMO.md"
[ -d "$SRC/demo" ] && cp -r "$SRC/demo" "$DST/demo" 2>/dev/null || true
python3 - "$SRC" "$DST" "$RESULT" <<'PY'
import json,sys,os
src,dst,result=sys.argv[1:4]
try: meta=json.load(open(os.path.join(src,'meta.json')))
except Exception: meta={}
meta['verified']={'applies_to_repo_head':True,'what_i_ran':'git -C /repo apply patch.diff; cargo build (harness, hooks on); ./check <id> quick; git -C /repo checkout -- .','result':result}
json.dump(meta,open(os.path.join(dst,'meta.json'),'w'),indent=1)
PY
echo "kept $DST"
