#!/bin/bash
# tools/try_mutant.sh <patch.diff> <check id> [more ids...]
# Applies the patch to /repo, runs the checks (quick), always undoes the patch.
set -u
PATCH="$1"; shift
cd /repo || exit 2
if ! git diff --quiet; then echo "repo has uncommitted changes"; exit 2; fi
git apply "$PATCH" || { echo "patch does not apply"; exit 2; }
trap 'git -C /repo checkout -- . ; ' EXIT
cd /verif
for id in "$@"; do
  out=$(VERIF_SEED=${VERIF_SEED:-1} ./check "$id" ${TIER:-quick} 2>&1); rc=$?
  echo "== $id rc=$rc"
  echo "$out" | grep -E "signature:|violation signatures|^ +[0-9]+  C|^$id " | sort | uniq -c | sort -rn | head -12
done
