#!/bin/bash
# tools/drill.sh [name...]: re-runs the seeded-change drill. For every /verif/seeded/<name>/patch.diff: apply it to /repo,
# run the property's quick check, expect exit 1 with a VIOLATION line, and always restore /repo. Prints one line per change.
# Never run this while other checks are running (they build from /repo's working tree).
cd /verif
names="$@"; [ -z "$names" ] && names=$(cd seeded && ls -d */ | tr -d /)
rc_all=0
for n in $names; do
  id=${n%%-*}
  # a change that breaks a neighbouring property names the check that catches it
  other=$(jq -r '.caught_by_check // empty' seeded/$n/meta.json 2>/dev/null); [ -n "$other" ] && id=$other
  p=seeded/$n/patch.diff
  # a documented gap: a kept change that no check catches (see DESIGN.md section 9)
  if [ "$(jq -r '.status // empty' seeded/$n/meta.json 2>/dev/null)" = "missed" ]; then echo "$n: KNOWN-MISS (documented gap)"; continue; fi
  if ! git -C /repo diff --quiet; then echo "$n: /repo working tree not clean, aborting"; exit 2; fi
  if ! git -C /repo apply --check $PWD/$p 2>/dev/null; then echo "$n: DOES-NOT-APPLY"; rc_all=1; continue; fi
  git -C /repo apply $PWD/$p
  out=$(./check $id quick 2>&1); rc=$?
  git -C /repo checkout -- .
  sigs=$(echo "$out" | grep -E "^ +[0-9]+ +$id/" | awk '{print $2}' | sort -u | head -4 | tr '\n' ' ')
  if [ $rc -eq 1 ] && echo "$out" | grep -q "^VIOLATION property=$id"; then echo "$n: CAUGHT $sigs"; else echo "$n: MISSED rc=$rc"; rc_all=1; fi
done
exit $rc_all
