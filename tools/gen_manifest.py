#!/usr/bin/env python3
"""Generates /verif/MANIFEST.json from tools/checks.json (one entry per claimed
property) and properties.jsonl (everything not claimed goes to not_applicable
with the reason given in tools/checks.json["not_applicable"] or a default)."""
import json, os, subprocess
root = os.path.dirname(os.path.dirname(os.path.abspath(__file__)))
spec = json.load(open(os.path.join(root, "tools", "checks.json")))
props = [json.loads(l) for l in open(os.path.join(root, "properties.jsonl")) if l.strip()]
claimed = {c["property_id"]: c for c in spec["checks"]}
try:
    levels = dict(l.split() for l in subprocess.check_output(["/verif/harness/target/release/rv", "list"], text=True).splitlines())
    for pid, c in claimed.items():
        assert levels.get(pid) == c["category"], f"{pid}: code level {levels.get(pid)} != manifest category {c['category']}"
except FileNotFoundError:
    pass
checks = []
for p in props:
    c = claimed.get(p["id"])
    if not c:
        continue
    entry = {
        "property_id": p["id"],
        "quick_cmd": f"./check {p['id']} quick",
        "thorough_cmd": f"./check {p['id']} thorough",
        "evidence_file": f"/verif/evidence/{p['id']}.json",
        "replay_cmd_template": f"./check {p['id']} quick --replay {{path}}",
        "engine": "rv",
        "level_claimed": {
            "category": c["category"],
            "text": c["text"],
            "design_ref": c.get("design_ref", f"DESIGN.md section 4, {p['id']}"),
        },
        "level_note": c["note"],
        "technique": c["technique"],
    }
    checks.append(entry)
na = []
for p in props:
    if p["id"] not in claimed:
        na.append({"property_id": p["id"],
                   "reason": spec.get("not_applicable", {}).get(p["id"], "check not built yet in this session; not claimed")})
try:
    commits = subprocess.check_output(
        ["git", "-C", "/repo", "log", "--format=%h %s", "--grep=^verif-hooks"], text=True).strip().splitlines()
except Exception:
    commits = []
manifest = {
    "version": 1,
    "setup_cmd": "cd /verif/harness && CARGO_NET_OFFLINE=true cargo build --release --offline",
    "hooks": {
        "guard": "cargo feature verif-hooks (off by default)",
        "enable": "the harness crate depends on routinator by path (/repo) with features=[\"verif-hooks\",\"arbitrary\"]; every check rebuilds it from the working tree",
        "baseline_off_cmd": "cd /repo && cargo test --workspace --no-fail-fast --offline",
        "source_commits": commits,
        "add_only": True,
    },
    "engines": [{
        "name": "rv",
        "path": "/verif/harness",
        "serves_properties": [c["property_id"] for c in checks],
        "kind_free_text": "Rust harness linking the real routinator crate: workload generators, fakes (rsync, RRDP/HTTPS), hook handler, monitors/oracles over observed events, sharded over worker processes",
    }],
    "checks": checks,
    "not_applicable": na,
    "notes": spec.get("notes", ""),
}
json.dump(manifest, open(os.path.join(root, "MANIFEST.json"), "w"), indent=1)
print(f"{len(checks)} checks, {len(na)} not claimed")

# Never leave an invalid manifest behind: validate against the schema with the tooling venv's jsonschema.
import subprocess as _sp
_r = _sp.run(["python3-vt", "-c", "import json,jsonschema,sys; jsonschema.validate(json.load(open('/verif/MANIFEST.json')), json.load(open('/root/.vp/MANIFEST.schema.json')))"], capture_output=True, text=True)
if _r.returncode != 0:
    print("MANIFEST.json does NOT validate:", _r.stderr.strip().splitlines()[-1] if _r.stderr.strip() else "?")
    raise SystemExit(1)
