#!/bin/bash
# Runs every registered check's quick (or thorough) command and prints a summary.
cd /verif
TIER="${1:-quick}"
fail=0
for id in $(jq -r '.checks[].property_id' MANIFEST.json); do
  start=$(date +%s)
  out=$(./check "$id" "$TIER" 2>&1); rc=$?
  end=$(date +%s)
  line=$(echo "$out" | grep -E "^$id $TIER" | tail -1)
  kf=$(echo "$out" | grep -c "^KNOWN-FINDING")
  echo "rc=$rc t=$((end-start))s known=$kf $line"
  if [ $rc -ne 0 ]; then fail=1; echo "$out" | grep -E "VIOLATION|INCONCLUSIVE|signature" | head -8; fi
done
exit $fail
